"""C25 Each atomic potential parametrization is internally consistent.

For one (table, element) per case the four real callables returned by the parametrization object
(`potential`, `scattering_factor`, `projected_potential`, `projected_scattering_factor`) are evaluated and
compared *with each other* through independent numerical transforms:

  * radial potential V(r) > 0 and strictly decreasing on r in [0.01, 6] A (dense geometric grid + case radii);
  * scattering factor f(k^2) > 0 and strictly decreasing in k on [0, 6] 1/A;
  * projected potential == 2 * int_0^inf V(sqrt(r^2+z^2)) dz     (scipy.integrate.quad on panels, epsrel 1e-10);
  * projected scattering factor == 2 pi int_0^inf Vp(r) J0(2 pi k r) r dr   (2-D Fourier transform of a radial
    function; trapezoid in u=ln r, which converges geometrically for this analytic integrand and absorbs the
    logarithmic singularity of Vp at r=0; the grid is refined once and the two results must agree, otherwise
    the evaluation is counted as `hankel-oracle-unconverged` and not judged);
  * projected scattering factor == f / kappa  (central-slice theorem; kappa from hard-coded CODATA-2014 constants);
  * f(k) == kappa * (2/k) int_0^inf V(r) sin(2 pi k r) r dr  (3-D Fourier transform, QUADPACK QAWO), i.e. the
    real-space and reciprocal-space forms describe the same atom.

History cases (state reused across requests / objects / precisions): several parametrization objects of one class are
built in one process from different tables (packaged file, dict of lists, dict of float64/float32 ndarrays, `from_json`,
perturbed custom tables, with/without `sigmas`) and are asked, alternately and partially, for their four functions under
float64 and float32.  Every returned function is compared with a float64 closed-form reference evaluated here from *that
object's own table* (Fourier pairs of the tabulated scattering-factor form), repeated requests must return the same
values, the stored table must be bit-identical before and after every request (and survive `to_json`), and at the end
each (object, element) must still satisfy f/kappa, the line-integral and (peng/kirkland) the Hankel relation.

Tables: lobato.json, kirkland.json, peng_high.json (the three defaults) and peng_low.json (the second neutral-atom
Peng table; same code path, other coefficients).  peng_ionic.json is outside the statement (ions have negative
electron scattering factors at low k and positive charges raise NotImplementedError by design).
"""
import json
import os
import zlib

import numpy as np

PROPERTY = "C25"
TECHNIQUE = "runtime monitoring; numerical-transform oracles (scipy quad projection, log-grid Hankel transform, QAWO sine transform) relating the four callables of one parametrization"
RULE = ("one case = (table in lobato/kirkland/peng_high/peng_low, element of that table, 6 radii log-uniform in [0.01,6] A incl. "
        "the end points, 5 spatial frequencies uniform in [0,6] 1/A incl. 0 and 6, precision float64 or float32, input dtype); "
        "quick: 3 fixed + ~9 random elements per table, thorough: every element of every table (402 table entries) plus random "
        "re-draws; non-trivial = all six relations evaluated for the element; distinct = distinct (table, element, radii, "
        "frequencies, precision); ~30% history cases: 2-3 objects of one class (lobato/kirkland/peng) built from file / dict of "
        "lists / dict of float64 or float32 arrays / from_json, unperturbed or perturbed tables, optional sigmas, 8-16 requests "
        "(object, function, element, precision) with repeats, alternation and partial function sets; non-trivial = >= 2 objects "
        "with different tables or a repeated request on an array-backed table")
CLAUSES = ["potential-positive", "potential-decreasing", "scattering-factor-positive", "scattering-factor-decreasing",
           "projected-potential-is-line-integral", "projected-scattering-factor-is-2d-transform",
           "projected-scattering-factor-is-f-over-kappa", "scattering-factor-is-3d-transform", "all-elements-callable",
           "history:function-of-own-table", "history:repeatable", "history:table-unchanged", "history:consistent-at-end"]
QUICK = dict(n=34, time=45)
THOROUGH = dict(n=8000, time=480, shards=16)
ASSUMPTIONS = ["radii in [0.01, 6] A and spatial frequencies in [0, 6] 1/A (the range used by abTEM's integrators and grids)",
               "ionic tables (peng_ionic.json) are outside the statement: anions have negative scattering factors at small k"]

TABLES = {"lobato": ("LobatoParametrization", "lobato.json"), "kirkland": ("KirklandParametrization", "kirkland.json"),
          "peng_high": ("PengParametrization", "peng_high.json"), "peng_low": ("PengParametrization", "peng_low.json")}
# CODATA 2014 (ase.units default): 1/kappa = h^2 / (2 pi m_e e) in V A^2
_H, _ME, _E = 6.626070040e-34, 9.10938356e-31, 1.6021766208e-19
INV_KAPPA = _H ** 2 / (2 * np.pi * _ME * _E) * 1e20
KAPPA = 1.0 / INV_KAPPA
R_MIN, R_MAX, K_MAX = 0.01, 6.0, 6.0

_SYMBOLS = {}


def symbols(table):
    """Element list of a table, read from the json file itself (not through abTEM)."""
    if table not in _SYMBOLS:
        import abtem.parametrizations as P
        with open(os.path.join(P._get_data_path(), TABLES[table][1])) as f:
            _SYMBOLS[table] = list(json.load(f).keys())
    return _SYMBOLS[table]


def _points(rng):
    r = np.exp(rng.uniform(np.log(R_MIN), np.log(R_MAX), size=4)).round(5).tolist()
    k = rng.uniform(0.0, K_MAX, size=3).round(5).tolist()
    return sorted([R_MIN] + r + [R_MAX]), sorted([0.0] + k + [K_MAX])


def _case(rng, table, symbol):
    r, k = _points(rng)
    f32 = bool(rng.random() < 0.25)
    return {"table": table, "symbol": symbol, "r": r, "k": k, "precision": "float32" if f32 else "float64",
            "input_dtype": "float32" if (f32 and rng.random() < 0.5) else "float64"}


def gen(rng, tier):
    if rng.random() < 0.3:
        return gen_history(rng)
    table = str(rng.choice(list(TABLES)))
    syms = symbols(table)
    return _case(rng, table, str(syms[int(rng.integers(0, len(syms)))]))


def fixed_cases(tier):
    out = list(FIXED_HISTORIES)
    for table in TABLES:
        syms = symbols(table)
        chosen = syms if tier == "thorough" else [syms[0], syms[13], syms[-1]]
        for s in chosen:
            rng = np.random.default_rng(zlib.crc32(("%s/%s" % (table, s)).encode()))
            c = _case(rng, table, s)
            if tier == "thorough":
                c["precision"], c["input_dtype"] = "float64", "float64"
            out.append(c)
    return out


# ----------------------------------------------------------------------------------- oracles
def line_integral(V, r):
    """2 * int_0^inf V(sqrt(r^2+z^2)) dz with scipy quad on panels; returns (value, error estimate)."""
    from scipy.integrate import quad

    def f(z):
        return float(V(np.array([np.hypot(r, z)], dtype=np.float64))[0])

    # the last panel is infinite: kirkland He has a Gaussian of width ~60 A
    edges = sorted({0.0, r, 4 * r, 1.0, 4.0, 16.0, 64.0}) + [np.inf]
    tot = err = 0.0
    for a, b in zip(edges[:-1], edges[1:]):
        v, e = quad(f, a, b, epsabs=0.0, epsrel=1e-10, limit=200)
        tot += v
        err += e
    return 2 * tot, 2 * err


def _support(vp):
    """Radius beyond which Vp(r) r^2 is below 1e-13 of its maximum."""
    r = np.geomspace(0.5, 600.0, 100)
    y = np.abs(np.asarray(vp(r), dtype=np.float64)) * r * r
    big = np.nonzero(y > 1e-13 * y.max())[0]
    if len(big) == 0:
        return 30.0
    return float(min(600.0, 1.3 * r[min(big[-1] + 1, len(r) - 1)]))


def hankel(vp, k, rmax, per_period=10, rmin=1e-6):
    from scipy.special import j0
    du = min(0.02, 1.0 / (max(k, 0.02) * rmax * per_period))
    u = np.arange(np.log(rmin), np.log(rmax) + du, du)
    r = np.exp(u)
    y = np.asarray(vp(r), dtype=np.float64) * j0(2 * np.pi * k * r) * r * r
    return float(2 * np.pi * np.sum(y) * du)


def sine_transform(V, k, rmax=500.0):
    """kappa * 4 pi int V(r) sinc(2 pi k r) r^2 dr -> scattering factor."""
    from scipy.integrate import quad
    edges = (0.0, 0.1, 1.0, 8.0, 40.0, 150.0, rmax)
    tot = err = 0.0
    if k < 1e-3:
        def g0(r):
            x = 2 * np.pi * k * r
            return float(V(np.array([r]))[0]) * r * r * (np.sinc(x / np.pi))
        for a, b in zip(edges[:-1], edges[1:]):
            v, e = quad(g0, a, b, epsabs=0.0, epsrel=1e-11, limit=400)
            tot += v
            err += e
        return KAPPA * 4 * np.pi * tot, KAPPA * 4 * np.pi * err

    def g(r):
        return float(V(np.array([r]))[0]) * r

    for a, b in zip(edges[:-1], edges[1:]):
        v, e = quad(g, a, b, weight="sin", wvar=2 * np.pi * k, epsabs=1e-15, epsrel=1e-11, limit=400)
        tot += v
        err += e
    return KAPPA * 2 / k * tot, KAPPA * 2 / k * err


def _strict_decrease(y, x, quadratic=False):
    """Strict decrease between neighbouring sample points that the input dtype can resolve.

    The dense grids are always resolvable; a case-specific point that happens to lie very close to a grid point is
    not (f(k^2) is flat at k = 0: between k = 0 and k = 0.0017 it falls by ~3e-6 relative, below float32 rounding of
    the evaluation), so such a pair is skipped instead of reporting rounding noise as a violation."""
    single = np.asarray(x).dtype == np.float32 or np.asarray(y).dtype == np.float32
    x = np.asarray(x, dtype=np.float64)
    gap = np.diff(x ** 2) if quadratic else np.diff(x) / np.maximum(x[1:], 1e-300)
    resolvable = gap > (1e-4 if single else 1e-11)
    d = np.diff(y)
    bad = np.nonzero(~(d < 0) & resolvable)[0]
    if len(bad) == 0:
        return True, None
    i = int(bad[0])
    return False, {"x0": float(x[i]), "x1": float(x[i + 1]), "y0": float(y[i]), "y1": float(y[i + 1])}


def check(ctx, case):
    import abtem
    import abtem.parametrizations as P
    from vf import gen as G

    if case.get("kind") == "history":
        return check_history(ctx, case)
    table, sym = case["table"], case["symbol"]
    f32 = case["precision"] == "float32"
    dt = np.float32 if case["input_dtype"] == "float32" else np.float64
    # relative tolerances: float64 runs are limited by the float32 constants/casts inside the lobato and kirkland
    # kernels (observed <= 1.1e-7 over all elements); float32 runs by float32 arithmetic on coefficients of mixed sign
    # (lobato He: 1.3e-4 at k = 0.3, the worst of all 402 table entries)
    rt = 2e-3 if f32 else 2e-6
    with G.precision(case["precision"]):
        par = getattr(P, TABLES[table][0])(TABLES[table][1])
        ctx.expect(sym in par.parameters, "all-elements-callable", table=table, symbol=sym)
        V = par.potential(sym)
        F = par.scattering_factor(sym)
        VP = par.projected_potential(sym)
        PF = par.projected_scattering_factor(sym)
        # the same callables are what named look-up hands to the rest of abTEM
        if table in ("lobato", "kirkland", "peng_high"):
            named = P.validate_parametrization({"peng_high": "peng"}.get(table, table))
            ctx.expect(type(named) is type(par) and np.array_equal(np.asarray(named.parameters[sym]),
                                                                  np.asarray(par.parameters[sym])),
                       "all-elements-callable", table=table, symbol=sym, what="named parametrization differs")

        # ---- sign and monotonicity on dense grids (float64 input and the dtype abTEM itself passes)
        rr = np.unique(np.concatenate([np.geomspace(R_MIN, R_MAX, 240), case["r"]]))
        kk = np.unique(np.concatenate([np.linspace(0.0, K_MAX, 240), case["k"]]))
        for dtype in {np.float64, dt}:
            r_in = rr.astype(dtype)
            k_in = kk.astype(dtype)
            if dtype is np.float32:     # keep points distinct after rounding
                r_in, k_in = np.unique(r_in), np.unique(k_in)
            v = np.asarray(V(r_in), dtype=np.float64)
            ctx.expect(np.isfinite(v).all() and (v > 0).all(), "potential-positive", table=table, symbol=sym,
                       min=float(np.nanmin(v)), dtype=np.dtype(dtype).name)
            ok, w = _strict_decrease(v, r_in)
            ctx.expect(ok, "potential-decreasing", table=table, symbol=sym, witness=w, dtype=np.dtype(dtype).name)
            f = np.asarray(F(k_in ** 2), dtype=np.float64)
            ctx.expect(np.isfinite(f).all() and (f > 0).all(), "scattering-factor-positive", table=table, symbol=sym,
                       min=float(np.nanmin(f)), dtype=np.dtype(dtype).name)
            ok, w = _strict_decrease(f, k_in, quadratic=True)
            ctx.expect(ok, "scattering-factor-decreasing", table=table, symbol=sym, witness=w, dtype=np.dtype(dtype).name)
            # the projected forms inherit both (auxiliary: a sign error in a Bessel term shows here first)
            vp = np.asarray(VP(r_in), dtype=np.float64)
            pf = np.asarray(PF(k_in ** 2), dtype=np.float64)
            ctx.expect((vp > 0).all() and _strict_decrease(vp, r_in)[0], "potential-decreasing", table=table, symbol=sym,
                       what="projected potential", dtype=np.dtype(dtype).name)
            ctx.expect((pf > 0).all() and _strict_decrease(pf, k_in, quadratic=True)[0], "scattering-factor-decreasing", table=table,
                       symbol=sym, what="projected scattering factor", dtype=np.dtype(dtype).name)

        judged = {"proj": 0, "hankel": 0, "sine": 0}
        # ---- projected potential = line integral of the 3-D potential
        r = np.asarray(case["r"], dtype=np.float64)
        got = np.asarray(VP(r.astype(dt)), dtype=np.float64)
        for ri, gi in zip(np.asarray(r.astype(dt), dtype=np.float64), got):
            ref, err = line_integral(V, float(ri))
            if err > 1e-7 * abs(ref):
                ctx.note("quad-oracle-unconverged")
                continue
            judged["proj"] += 1
            ctx.close(gi, ref, "projected-potential-is-line-integral", rtol=rt, table=table, symbol=sym, r=float(ri))

        # ---- projected scattering factor = 2-D Fourier transform of the projected potential = f / kappa
        k = np.asarray(case["k"], dtype=np.float64)
        k_eval = np.asarray(k.astype(dt), dtype=np.float64)
        pf = np.asarray(PF((k.astype(dt)) ** 2), dtype=np.float64)
        f = np.asarray(F((k.astype(dt)) ** 2), dtype=np.float64)
        rmax = _support(VP)
        for ki, pi_, fi in zip(k_eval, pf, f):
            h1 = hankel(VP, float(ki), rmax, per_period=6)
            h2 = hankel(VP, float(ki), 1.25 * rmax, per_period=9, rmin=1e-7)
            if abs(h1 - h2) > 0.02 * rt * abs(h2):
                ctx.note("hankel-oracle-unconverged")
                continue
            ctx.monitor("hankel-transforms")
            judged["hankel"] += 1
            ctx.close(pi_, h2, "projected-scattering-factor-is-2d-transform", rtol=rt, table=table, symbol=sym, k=float(ki))
            ctx.close(pi_ * KAPPA, fi, "projected-scattering-factor-is-f-over-kappa", rtol=rt, table=table, symbol=sym,
                      k=float(ki))
            s, err = sine_transform(V, float(ki))
            if err > 1e-7 * abs(s):
                ctx.note("sine-oracle-unconverged")
                continue
            judged["sine"] += 1
            ctx.close(fi, s, "scattering-factor-is-3d-transform", rtol=rt, table=table, symbol=sym, k=float(ki))
    ctx.nontrivial(judged["proj"] >= 3 and judged["hankel"] >= 3 and judged["sine"] >= 3)


# ----------------------------------------------------------------------------------- histories on parametrization objects
CLASSES = {"lobato": ("LobatoParametrization", ["lobato.json"]), "kirkland": ("KirklandParametrization", ["kirkland.json"]),
           "peng": ("PengParametrization", ["peng_high.json", "peng_low.json"])}
FUNCS = ["potential", "scattering_factor", "projected_potential", "projected_scattering_factor"]
BUILDS = ["file", "dict-lists", "dict-arrays", "dict-arrays32", "from_json"]
H_SYMBOLS = ["H", "C", "O", "Si", "Cu", "Mo", "Au", "U"]
H_R = np.array([0.05, 0.3, 1.0, 2.5])
H_K = np.array([0.0, 0.5, 1.5, 4.0])


def gen_history(rng):
    cls = str(rng.choice(list(CLASSES)))
    files = CLASSES[cls][1]
    nobj = int(rng.integers(1, 4))
    objects = []
    for i in range(nobj):
        build = str(rng.choice(BUILDS))
        perturb = None
        if build != "file" and rng.random() < 0.6:
            perturb = {"amp": float(rng.uniform(0.7, 1.4)), "width": float(rng.uniform(0.6, 1.6)),
                       "dw": float(rng.uniform(0.0, 1.5))}
        objects.append({"build": build, "file": str(rng.choice(files)), "perturb": perturb,
                        "sigmas": None if rng.random() < 0.7 else float(rng.uniform(0.05, 0.2))})
    symbols = [str(x) for x in rng.choice(H_SYMBOLS, size=int(rng.integers(1, 4)), replace=False)]
    requests = []
    for _ in range(int(rng.integers(8, 17))):
        if requests and rng.random() < 0.3:
            o, f, sy, _p = requests[int(rng.integers(0, len(requests)))]       # repeat (same or other precision / object)
            if rng.random() < 0.5:
                o = int(rng.integers(0, nobj))
        else:
            o, f, sy = int(rng.integers(0, nobj)), str(rng.choice(FUNCS)), str(rng.choice(symbols))
        requests.append([o, f, sy, "float32" if rng.random() < 0.3 else "float64"])
    return {"kind": "history", "cls": cls, "objects": objects, "symbols": symbols, "requests": requests}


def _seq(objs, reqs, precision="float64"):
    return [[o, f, s, precision] for o, f, s in reqs]


FIXED_HISTORIES = [
    # one array-backed Peng object asked twice / for several functions of the same element (tables from a dict of arrays
    # and from from_json are the documented ways to supply custom parameters)
    {"kind": "history", "cls": "peng", "symbols": ["C", "Si"],
     "objects": [{"build": "dict-arrays", "file": "peng_high.json", "perturb": None, "sigmas": None},
                 {"build": "from_json", "file": "peng_high.json", "perturb": None, "sigmas": None}],
     "requests": _seq(2, [(0, "projected_potential", "C"), (0, "projected_scattering_factor", "C"),
                          (0, "projected_scattering_factor", "C"), (0, "potential", "Si"), (0, "scattering_factor", "Si"),
                          (1, "potential", "C"), (1, "scattering_factor", "C"), (1, "potential", "C")])},
    # default Peng object used for its real-space forms only, then a second object with a Debye-Waller factor folded into
    # the exponents, then the first one again; second block repeats the pattern under float32
    {"kind": "history", "cls": "peng", "symbols": ["Si", "Au"],
     "objects": [{"build": "file", "file": "peng_high.json", "perturb": None, "sigmas": None},
                 {"build": "dict-lists", "file": "peng_high.json", "perturb": {"amp": 1.0, "width": 1.0, "dw": 0.79},
                  "sigmas": 0.1},
                 {"build": "file", "file": "peng_low.json", "perturb": None, "sigmas": None}],
     "requests": _seq(3, [(0, "potential", "Si"), (0, "projected_potential", "Si"), (0, "potential", "Au"),
                          (1, "projected_potential", "Si"), (1, "projected_scattering_factor", "Si"), (1, "potential", "Au"),
                          (2, "potential", "Si"), (2, "scattering_factor", "Si"), (0, "scattering_factor", "Si")]) +
     _seq(3, [(1, "scattering_factor", "Au"), (0, "scattering_factor", "Au"), (1, "scattering_factor", "Au")], "float32")},
    # the same alternation for the other two classes, both precisions
    {"kind": "history", "cls": "lobato", "symbols": ["O", "Cu"],
     "objects": [{"build": "file", "file": "lobato.json", "perturb": None, "sigmas": None},
                 {"build": "dict-arrays", "file": "lobato.json", "perturb": {"amp": 1.2, "width": 0.8, "dw": 0.0},
                  "sigmas": None}],
     "requests": _seq(2, [(0, "potential", "O"), (0, "scattering_factor", "Cu"), (1, "potential", "O"),
                          (1, "projected_scattering_factor", "O"), (1, "scattering_factor", "Cu"), (1, "potential", "O"),
                          (0, "projected_scattering_factor", "O")]) +
     _seq(2, [(0, "potential", "O"), (1, "potential", "O")], "float32")},
    {"kind": "history", "cls": "kirkland", "symbols": ["C", "Mo"],
     "objects": [{"build": "from_json", "file": "kirkland.json", "perturb": {"amp": 0.9, "width": 1.3, "dw": 0.0},
                  "sigmas": None},
                 {"build": "file", "file": "kirkland.json", "perturb": None, "sigmas": 0.08}],
     "requests": _seq(2, [(0, "projected_potential", "C"), (0, "projected_potential", "C"), (1, "projected_potential", "C"),
                          (1, "scattering_factor", "Mo"), (0, "scattering_factor", "Mo"), (0, "potential", "Mo"),
                          (1, "potential", "Mo")])},
]


def _file_table(name):
    import abtem.parametrizations as P
    with open(os.path.join(P._get_data_path(), name)) as f:
        return json.load(f)


def own_table(cls, spec, symbols):
    """The table an object is meant to hold: {symbol: float64 array}, computed here from the json file."""
    raw = _file_table(spec["file"])
    out = {}
    for sy in symbols:
        t = np.array(raw[sy], dtype=np.float64)
        p = spec["perturb"]
        if p:
            if cls == "peng":                 # amplitudes scaled, Debye-Waller factor folded into the exponents
                t[0] *= p["amp"]
                t[1] = t[1] * p["width"] + p["dw"]
            elif cls == "lobato":
                t[0] *= p["amp"]
                t[1] *= p["width"]
            else:
                t[0] *= p["amp"]
                t[2] *= p["amp"]
                t[1] *= p["width"]
                t[3] *= p["width"]
        out[sy] = t
    return out


def reference(cls, t, name, x):
    """Closed forms (float64) of the four functions for one table entry: the tabulated scattering-factor form and its
    Fourier partners V = FT3[f]/kappa, Vp = int V dz, fp = f/kappa."""
    from scipy.special import kn
    x = np.asarray(x, dtype=np.float64)[:, None]
    if cls == "peng":
        a, b = t[0][None], t[1][None] / 4.0                      # s = k/2
        if name == "scattering_factor":
            y = a * np.exp(-b * x)
        elif name == "projected_scattering_factor":
            y = a * INV_KAPPA * np.exp(-b * x)
        elif name == "potential":
            y = INV_KAPPA * a * (np.pi / b) ** 1.5 * np.exp(-np.pi ** 2 * x ** 2 / b)
        else:
            y = INV_KAPPA * a * (np.pi / b) * np.exp(-np.pi ** 2 * x ** 2 / b)
    elif cls == "lobato":
        a, b = t[0][None], t[1][None]
        A, B = np.pi ** 2 * a / b ** 1.5 * INV_KAPPA, 2 * np.pi / np.sqrt(b)
        if name == "scattering_factor":
            y = a * (2 + b * x) / (1 + b * x) ** 2
        elif name == "projected_scattering_factor":
            q = 4 * np.pi ** 2 * x
            y = 8 * np.pi * (A / B / (q + B ** 2) + A * B / (q + B ** 2) ** 2)
        elif name == "potential":
            y = A * (2 / (B * x) + 1) * np.exp(-B * x)
        else:
            y = 2 * (2 * A / B * kn(0, B * x) + A * x * kn(1, B * x))
    else:
        a, b, c, d = (t[i][None] for i in range(4))
        A, B, Cc, Dd = np.pi * a * INV_KAPPA, 2 * np.pi * np.sqrt(b), np.pi ** 1.5 * c / d ** 1.5 * INV_KAPPA, np.pi ** 2 / d
        if name == "scattering_factor":
            y = a / (b + x) + c * np.exp(-d * x)
        elif name == "projected_scattering_factor":
            y = 4 * np.pi * A / (4 * np.pi ** 2 * x + B ** 2) + np.sqrt(np.pi / Dd) * Cc * np.pi / Dd * np.exp(-np.pi ** 2 * x / Dd)
        elif name == "potential":
            y = A * np.exp(-B * x) / x + Cc * np.exp(-Dd * x ** 2)
        else:
            y = 2 * A * kn(0, B * x) + np.sqrt(np.pi / Dd) * Cc * np.exp(-Dd * x ** 2)
    return y.sum(1)


def _arg(name):
    return H_R if name in ("potential", "projected_potential") else H_K ** 2


def _snapshot(par):
    return {k: (type(v).__name__, np.array(v, dtype=np.float64).copy(), getattr(v, "dtype", None))
            for k, v in par.parameters.items()}


def _same_table(snap, par):
    if set(snap) != set(par.parameters):
        return "keys changed"
    for k, (tname, arr_, dt) in snap.items():
        v = par.parameters[k]
        if type(v).__name__ != tname or getattr(v, "dtype", None) != dt:
            return "%s: container %s/%s -> %s/%s" % (k, tname, dt, type(v).__name__, getattr(v, "dtype", None))
        now = np.array(v, dtype=np.float64)
        if now.shape != arr_.shape or not np.array_equal(now, arr_):
            return "%s: values changed (max ratio %.6g)" % (k, float(np.nanmax(np.abs(now / arr_)))
                                                           if now.shape == arr_.shape else float("nan"))
    return None


def check_history(ctx, case):
    import tempfile
    import abtem.parametrizations as P
    from vf import gen as G
    cls = case["cls"]
    klass = getattr(P, CLASSES[cls][0])
    symbols = case["symbols"]
    tables, objs = [], []
    with tempfile.TemporaryDirectory() as tmp:
        for i, spec in enumerate(case["objects"]):
            t = own_table(cls, spec, symbols)
            tables.append(t)
            kw = {} if spec["sigmas"] is None else {"sigmas": spec["sigmas"]}
            b = spec["build"]
            if b == "file" and not spec["perturb"]:
                par = klass(spec["file"], **kw)
            elif b in ("file", "dict-lists"):
                par = klass({k: v.tolist() for k, v in t.items()}, **kw)
            elif b == "dict-arrays":
                par = klass({k: v.copy() for k, v in t.items()}, **kw)
            elif b == "dict-arrays32":
                t = {k: v.astype(np.float32).astype(np.float64) for k, v in t.items()}
                tables[-1] = t
                par = klass({k: v.astype(np.float32) for k, v in t.items()}, **kw)
            else:
                path = os.path.join(tmp, "table%d.json" % i)
                with open(path, "w") as f:
                    json.dump({k: v.tolist() for k, v in t.items()}, f)
                par = klass(**kw)
                par.from_json(path)
            objs.append(par)
        snaps = [_snapshot(o) for o in objs]
        seen = {}
        array_backed_repeat = False
        for step, (o, name, sy, prec) in enumerate(case["requests"]):
            par, t = objs[o], tables[o][sy]
            # a float32 table makes abTEM scale the coefficients in float32 arithmetic: float32-level agreement only
            rt = 2e-3 if (prec == "float32" or case["objects"][o]["build"] == "dict-arrays32") else 2e-6
            with G.precision(prec):
                fn = getattr(par, name)(sy)
                x = _arg(name)
                got = np.asarray(fn(x), dtype=np.float64)
                again = np.asarray(getattr(par, name)(sy)(x), dtype=np.float64)
            want = reference(cls, t, name, x)
            ctx.close(got, want, "history:function-of-own-table", rtol=rt, scale=None, atol=rt * 1e-6 * float(np.abs(want).max()),
                      step=step, obj=o, build=case["objects"][o]["build"], function=name, symbol=sy, precision=prec,
                      worst=float(np.max(np.abs(got / want - 1))))
            # element-wise relative comparison (values span many decades)
            ctx.expect(np.all(np.abs(got - want) <= rt * np.abs(want) + 1e-300), "history:function-of-own-table", step=step,
                       obj=o, function=name, symbol=sy, precision=prec, got=got, want=want)
            ctx.expect(np.array_equal(got, again), "history:repeatable", step=step, obj=o, function=name, symbol=sy,
                       what="two consecutive requests differ")
            key = (o, name, sy, prec)
            if key in seen:
                ctx.expect(np.array_equal(got, seen[key]), "history:repeatable", step=step, obj=o, function=name, symbol=sy,
                           what="differs from the same request at step %d" % seen[(key, "step")])
                if case["objects"][o]["build"] in ("dict-arrays", "dict-arrays32", "from_json"):
                    array_backed_repeat = True
            else:
                seen[key] = got
                seen[(key, "step")] = step
            for j, (snap, other) in enumerate(zip(snaps, objs)):
                changed = _same_table(snap, other)
                ctx.expect(changed is None, "history:table-unchanged", step=step, requested_obj=o, changed_obj=j,
                           function=name, symbol=sy, change=changed)
                if changed is not None:
                    snaps[j] = _snapshot(other)          # report each modification once
            ctx.monitor("history-requests")

        # ---- serialisation keeps the table (array-backed objects; to_json needs ndarray entries)
        for i, (par, spec) in enumerate(zip(objs, case["objects"])):
            if spec["build"] in ("dict-arrays", "from_json"):
                path = os.path.join(tmp, "out%d.json" % i)
                par.to_json(path)
                with open(path) as f:
                    back = json.load(f)
                ok = all(np.array_equal(np.array(back[sy], dtype=np.float64), tables[i][sy]) for sy in symbols)
                ctx.expect(ok, "history:table-unchanged", what="to_json wrote a different table", obj=i)

        # ---- after the history every (object, element) still describes one atom
        for i, par in enumerate(objs):
            loose = 1000.0 if case["objects"][i]["build"] == "dict-arrays32" else 1.0
            for sy in symbols:
                with G.precision("float64"):
                    V, F = par.potential(sy), par.scattering_factor(sy)
                    VP, PF = par.projected_potential(sy), par.projected_scattering_factor(sy)
                    pf = np.asarray(PF(H_K ** 2), dtype=np.float64)
                    f = np.asarray(F(H_K ** 2), dtype=np.float64)
                    ctx.close(pf * KAPPA / f, np.ones(len(H_K)), "history:consistent-at-end", rtol=0, atol=2e-6 * loose, obj=i,
                              symbol=sy, relation="f/kappa")
                    for r in (0.3, 1.0):
                        ref, err = line_integral(V, r)
                        if err <= 1e-7 * abs(ref):
                            ctx.close(float(np.asarray(VP(np.array([r])), dtype=np.float64)[0]), ref,
                                      "history:consistent-at-end", rtol=2e-6 * loose, obj=i, symbol=sy, relation="line-integral", r=r)
                    if cls != "lobato":
                        rmax = _support(VP)
                        h = hankel(VP, 0.5, rmax, per_period=8)
                        ctx.close(float(np.asarray(PF(np.array([0.25])), dtype=np.float64)[0]), h, "history:consistent-at-end",
                                  rtol=5e-6 * loose, obj=i, symbol=sy, relation="hankel")
                    s_, err = sine_transform(V, 1.5)
                    if err <= 1e-7 * abs(s_):
                        ctx.close(float(np.asarray(F(np.array([2.25])), dtype=np.float64)[0]), s_, "history:consistent-at-end",
                                  rtol=2e-6 * loose, obj=i, symbol=sy, relation="sine-transform")
    distinct_tables = len({json.dumps({k: v.tolist() for k, v in t.items()}, sort_keys=True) for t in tables})
    ctx.nontrivial(distinct_tables >= 2 or array_backed_repeat)
