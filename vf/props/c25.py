"""C25 Each atomic potential parametrization is internally consistent.

For one (table, element) per case the four real callables returned by the parametrization object
(`potential`, `scattering_factor`, `projected_potential`, `projected_scattering_factor`) are evaluated and
compared *with each other* through independent numerical transforms:

  * radial potential V(r) > 0 and strictly decreasing on r in [0.01, 6] A (dense geometric grid + case radii);
  * scattering factor f(k^2) > 0 and strictly decreasing in k on [0, 6] 1/A;
  * projected potential == 2 * int_0^inf V(sqrt(r^2+z^2)) dz     (scipy.integrate.quad on panels, epsrel 1e-10);
  * projected scattering factor == 2 pi int_0^inf Vp(r) J0(2 pi k r) r dr   (2-D Fourier transform of a radial
    function; trapezoid in u=ln r, which converges geometrically for this analytic integrand and absorbs the
    logarithmic singularity of Vp at r=0; the grid is refined once and the two results must agree, otherwise
    the evaluation is counted as `hankel-oracle-unconverged` and not judged);
  * projected scattering factor == f / kappa  (central-slice theorem; kappa from hard-coded CODATA-2014 constants);
  * f(k) == kappa * (2/k) int_0^inf V(r) sin(2 pi k r) r dr  (3-D Fourier transform, QUADPACK QAWO), i.e. the
    real-space and reciprocal-space forms describe the same atom.

Tables: lobato.json, kirkland.json, peng_high.json (the three defaults) and peng_low.json (the second neutral-atom
Peng table; same code path, other coefficients).  peng_ionic.json is outside the statement (ions have negative
electron scattering factors at low k and positive charges raise NotImplementedError by design).
"""
import json
import os
import zlib

import numpy as np

PROPERTY = "C25"
TECHNIQUE = "runtime monitoring; numerical-transform oracles (scipy quad projection, log-grid Hankel transform, QAWO sine transform) relating the four callables of one parametrization"
RULE = ("one case = (table in lobato/kirkland/peng_high/peng_low, element of that table, 6 radii log-uniform in [0.01,6] A incl. "
        "the end points, 5 spatial frequencies uniform in [0,6] 1/A incl. 0 and 6, precision float64 or float32, input dtype); "
        "quick: 3 fixed + ~9 random elements per table, thorough: every element of every table (402 table entries) plus random "
        "re-draws; non-trivial = all six relations evaluated for the element; distinct = distinct (table, element, radii, "
        "frequencies, precision)")
CLAUSES = ["potential-positive", "potential-decreasing", "scattering-factor-positive", "scattering-factor-decreasing",
           "projected-potential-is-line-integral", "projected-scattering-factor-is-2d-transform",
           "projected-scattering-factor-is-f-over-kappa", "scattering-factor-is-3d-transform", "all-elements-callable"]
QUICK = dict(n=34, time=45)
THOROUGH = dict(n=1000, time=400, shards=16)
ASSUMPTIONS = ["radii in [0.01, 6] A and spatial frequencies in [0, 6] 1/A (the range used by abTEM's integrators and grids)",
               "ionic tables (peng_ionic.json) are outside the statement: anions have negative scattering factors at small k"]

TABLES = {"lobato": ("LobatoParametrization", "lobato.json"), "kirkland": ("KirklandParametrization", "kirkland.json"),
          "peng_high": ("PengParametrization", "peng_high.json"), "peng_low": ("PengParametrization", "peng_low.json")}
# CODATA 2014 (ase.units default): 1/kappa = h^2 / (2 pi m_e e) in V A^2
_H, _ME, _E = 6.626070040e-34, 9.10938356e-31, 1.6021766208e-19
INV_KAPPA = _H ** 2 / (2 * np.pi * _ME * _E) * 1e20
KAPPA = 1.0 / INV_KAPPA
R_MIN, R_MAX, K_MAX = 0.01, 6.0, 6.0

_SYMBOLS = {}


def symbols(table):
    """Element list of a table, read from the json file itself (not through abTEM)."""
    if table not in _SYMBOLS:
        import abtem.parametrizations as P
        with open(os.path.join(P._get_data_path(), TABLES[table][1])) as f:
            _SYMBOLS[table] = list(json.load(f).keys())
    return _SYMBOLS[table]


def _points(rng):
    r = np.exp(rng.uniform(np.log(R_MIN), np.log(R_MAX), size=4)).round(5).tolist()
    k = rng.uniform(0.0, K_MAX, size=3).round(5).tolist()
    return sorted([R_MIN] + r + [R_MAX]), sorted([0.0] + k + [K_MAX])


def _case(rng, table, symbol):
    r, k = _points(rng)
    f32 = bool(rng.random() < 0.25)
    return {"table": table, "symbol": symbol, "r": r, "k": k, "precision": "float32" if f32 else "float64",
            "input_dtype": "float32" if (f32 and rng.random() < 0.5) else "float64"}


def gen(rng, tier):
    table = str(rng.choice(list(TABLES)))
    syms = symbols(table)
    return _case(rng, table, str(syms[int(rng.integers(0, len(syms)))]))


def fixed_cases(tier):
    out = []
    for table in TABLES:
        syms = symbols(table)
        chosen = syms if tier == "thorough" else [syms[0], syms[13], syms[-1]]
        for s in chosen:
            rng = np.random.default_rng(zlib.crc32(("%s/%s" % (table, s)).encode()))
            c = _case(rng, table, s)
            if tier == "thorough":
                c["precision"], c["input_dtype"] = "float64", "float64"
            out.append(c)
    return out


# ----------------------------------------------------------------------------------- oracles
def line_integral(V, r):
    """2 * int_0^inf V(sqrt(r^2+z^2)) dz with scipy quad on panels; returns (value, error estimate)."""
    from scipy.integrate import quad

    def f(z):
        return float(V(np.array([np.hypot(r, z)], dtype=np.float64))[0])

    # the last panel is infinite: kirkland He has a Gaussian of width ~60 A
    edges = sorted({0.0, r, 4 * r, 1.0, 4.0, 16.0, 64.0}) + [np.inf]
    tot = err = 0.0
    for a, b in zip(edges[:-1], edges[1:]):
        v, e = quad(f, a, b, epsabs=0.0, epsrel=1e-10, limit=200)
        tot += v
        err += e
    return 2 * tot, 2 * err


def _support(vp):
    """Radius beyond which Vp(r) r^2 is below 1e-13 of its maximum."""
    r = np.geomspace(0.5, 600.0, 100)
    y = np.abs(np.asarray(vp(r), dtype=np.float64)) * r * r
    big = np.nonzero(y > 1e-13 * y.max())[0]
    return float(min(600.0, 1.3 * r[min(big[-1] + 1, len(r) - 1)]))


def hankel(vp, k, rmax, per_period=10, rmin=1e-6):
    from scipy.special import j0
    du = min(0.02, 1.0 / (max(k, 0.02) * rmax * per_period))
    u = np.arange(np.log(rmin), np.log(rmax) + du, du)
    r = np.exp(u)
    y = np.asarray(vp(r), dtype=np.float64) * j0(2 * np.pi * k * r) * r * r
    return float(2 * np.pi * np.sum(y) * du)


def sine_transform(V, k, rmax=500.0):
    """kappa * 4 pi int V(r) sinc(2 pi k r) r^2 dr -> scattering factor."""
    from scipy.integrate import quad
    edges = (0.0, 0.1, 1.0, 8.0, 40.0, 150.0, rmax)
    tot = err = 0.0
    if k < 1e-3:
        def g0(r):
            x = 2 * np.pi * k * r
            return float(V(np.array([r]))[0]) * r * r * (np.sinc(x / np.pi))
        for a, b in zip(edges[:-1], edges[1:]):
            v, e = quad(g0, a, b, epsabs=0.0, epsrel=1e-11, limit=400)
            tot += v
            err += e
        return KAPPA * 4 * np.pi * tot, KAPPA * 4 * np.pi * err

    def g(r):
        return float(V(np.array([r]))[0]) * r

    for a, b in zip(edges[:-1], edges[1:]):
        v, e = quad(g, a, b, weight="sin", wvar=2 * np.pi * k, epsabs=1e-15, epsrel=1e-11, limit=400)
        tot += v
        err += e
    return KAPPA * 2 / k * tot, KAPPA * 2 / k * err


def _strict_decrease(y, x):
    d = np.diff(y)
    bad = np.nonzero(~(d < 0))[0]
    if len(bad) == 0:
        return True, None
    i = int(bad[0])
    return False, {"x0": float(x[i]), "x1": float(x[i + 1]), "y0": float(y[i]), "y1": float(y[i + 1])}


def check(ctx, case):
    import abtem
    import abtem.parametrizations as P
    from vf import gen as G

    table, sym = case["table"], case["symbol"]
    f32 = case["precision"] == "float32"
    dt = np.float32 if case["input_dtype"] == "float32" else np.float64
    # relative tolerances: float64 runs are limited by the float32 constants/casts inside the lobato and kirkland
    # kernels (observed <= 1.1e-7 over all elements); float32 runs by float32 arithmetic on coefficients of mixed sign
    # (lobato He: 1.3e-4 at k = 0.3, the worst of all 402 table entries)
    rt = 2e-3 if f32 else 2e-6
    with G.precision(case["precision"]):
        par = getattr(P, TABLES[table][0])(TABLES[table][1])
        ctx.expect(sym in par.parameters, "all-elements-callable", table=table, symbol=sym)
        V = par.potential(sym)
        F = par.scattering_factor(sym)
        VP = par.projected_potential(sym)
        PF = par.projected_scattering_factor(sym)
        # the same callables are what named look-up hands to the rest of abTEM
        if table in ("lobato", "kirkland", "peng_high"):
            named = P.validate_parametrization({"peng_high": "peng"}.get(table, table))
            ctx.expect(type(named) is type(par) and np.array_equal(np.asarray(named.parameters[sym]),
                                                                  np.asarray(par.parameters[sym])),
                       "all-elements-callable", table=table, symbol=sym, what="named parametrization differs")

        # ---- sign and monotonicity on dense grids (float64 input and the dtype abTEM itself passes)
        rr = np.unique(np.concatenate([np.geomspace(R_MIN, R_MAX, 240), case["r"]]))
        kk = np.unique(np.concatenate([np.linspace(0.0, K_MAX, 240), case["k"]]))
        for dtype in {np.float64, dt}:
            r_in = rr.astype(dtype)
            k_in = kk.astype(dtype)
            if dtype is np.float32:     # keep points distinct after rounding
                r_in, k_in = np.unique(r_in), np.unique(k_in)
            v = np.asarray(V(r_in), dtype=np.float64)
            ctx.expect(np.isfinite(v).all() and (v > 0).all(), "potential-positive", table=table, symbol=sym,
                       min=float(np.nanmin(v)), dtype=np.dtype(dtype).name)
            ok, w = _strict_decrease(v, r_in)
            ctx.expect(ok, "potential-decreasing", table=table, symbol=sym, witness=w, dtype=np.dtype(dtype).name)
            f = np.asarray(F(k_in ** 2), dtype=np.float64)
            ctx.expect(np.isfinite(f).all() and (f > 0).all(), "scattering-factor-positive", table=table, symbol=sym,
                       min=float(np.nanmin(f)), dtype=np.dtype(dtype).name)
            ok, w = _strict_decrease(f, k_in)
            ctx.expect(ok, "scattering-factor-decreasing", table=table, symbol=sym, witness=w, dtype=np.dtype(dtype).name)
            # the projected forms inherit both (auxiliary: a sign error in a Bessel term shows here first)
            vp = np.asarray(VP(r_in), dtype=np.float64)
            pf = np.asarray(PF(k_in ** 2), dtype=np.float64)
            ctx.expect((vp > 0).all() and _strict_decrease(vp, r_in)[0], "potential-decreasing", table=table, symbol=sym,
                       what="projected potential", dtype=np.dtype(dtype).name)
            ctx.expect((pf > 0).all() and _strict_decrease(pf, k_in)[0], "scattering-factor-decreasing", table=table,
                       symbol=sym, what="projected scattering factor", dtype=np.dtype(dtype).name)

        judged = {"proj": 0, "hankel": 0, "sine": 0}
        # ---- projected potential = line integral of the 3-D potential
        r = np.asarray(case["r"], dtype=np.float64)
        got = np.asarray(VP(r.astype(dt)), dtype=np.float64)
        for ri, gi in zip(np.asarray(r.astype(dt), dtype=np.float64), got):
            ref, err = line_integral(V, float(ri))
            if err > 1e-7 * abs(ref):
                ctx.note("quad-oracle-unconverged")
                continue
            judged["proj"] += 1
            ctx.close(gi, ref, "projected-potential-is-line-integral", rtol=rt, table=table, symbol=sym, r=float(ri))

        # ---- projected scattering factor = 2-D Fourier transform of the projected potential = f / kappa
        k = np.asarray(case["k"], dtype=np.float64)
        k_eval = np.asarray(k.astype(dt), dtype=np.float64)
        pf = np.asarray(PF((k.astype(dt)) ** 2), dtype=np.float64)
        f = np.asarray(F((k.astype(dt)) ** 2), dtype=np.float64)
        rmax = _support(VP)
        for ki, pi_, fi in zip(k_eval, pf, f):
            h1 = hankel(VP, float(ki), rmax, per_period=6)
            h2 = hankel(VP, float(ki), 1.25 * rmax, per_period=9, rmin=1e-7)
            if abs(h1 - h2) > 0.02 * rt * abs(h2):
                ctx.note("hankel-oracle-unconverged")
                continue
            ctx.monitor("hankel-transforms")
            judged["hankel"] += 1
            ctx.close(pi_, h2, "projected-scattering-factor-is-2d-transform", rtol=rt, table=table, symbol=sym, k=float(ki))
            ctx.close(pi_ * KAPPA, fi, "projected-scattering-factor-is-f-over-kappa", rtol=rt, table=table, symbol=sym,
                      k=float(ki))
            s, err = sine_transform(V, float(ki))
            if err > 1e-7 * abs(s):
                ctx.note("sine-oracle-unconverged")
                continue
            judged["sine"] += 1
            ctx.close(fi, s, "scattering-factor-is-3d-transform", rtol=rt, table=table, symbol=sym, k=float(ki))
    ctx.nontrivial(judged["proj"] >= 3 and judged["hankel"] >= 3 and judged["sine"] >= 3)
