"""C19 Ensemble partitioning reassembles every member exactly once.

Oracle: exactly-once / ordering check on unique ids.  Every ensemble is built so that each member
is identifiable (distinct scan positions, distinct distribution values and weights, distinct seeds,
atoms tagged with their index, arrays filled with their own flat index).  A *member table* (ndarray
with the ensemble shape in front) is read from the original ensemble and, with the same reader, from
every block; the blocks are written into an empty table at the places that the requested chunking
assigns to them (cumulative sums computed here, not taken from abTEM) while a counter table records
how often every cell was written.  Table == original and counter == 1 everywhere decide
exactly-once and order.  The same is done for eager `generate_blocks` and for lazy
`ensemble_blocks().compute()`; the two block grids must agree.  Axis metadata of the blocks are
reassembled per axis (ordinal values concatenated; linear axes either shifted so that the coordinates
concatenate to the original ones, or carried unchanged, which is abTEM's own concatenation rule for
non-ordinal axes) and compared with the original axis.  Every dataclass field that the axis class declares
(not only label/units/values: direction, tex labels, _ensemble_mean, _main, _squeeze, _concatenate, _default_type,
endpoint, fftshift, sampling) and the derived `tilt` vectors must equal the original's; only `values` (ordinal) and
`offset` (linear) may be the block's share.
"""
import itertools

import numpy as np

from vf import gen as G

PROPERTY = "C19"
TECHNIQUE = "runtime monitoring; exactly-once/ordering oracle on unique member ids, eager generate_blocks vs lazy ensemble_blocks differential"
RULE = ("ensemble kinds GridScan / LineScan (endpoint on/off) / CustomScan / CTF, Aberrations, Aperture with 1-3 (CTF up to 4) "
        "distribution parameters (uniform, gaussian, from_values with weights) / FrozenPhonons (int seed or explicit seeds) / "
        "AtomsEnsemble (list, ndarray, dask trajectory) / Potential and MultisliceTransform over frozen phonons (with and "
        "without exit planes) / array objects Waves, Images, DiffractionPatterns, Real- and ReciprocalSpaceLineProfiles, "
        "PolarMeasurements, PotentialArray, SMatrixArray with 0-3 ensemble axes of mixed metadata types, eager or lazy with "
        "their own dask chunks, axis classes incl. AxisAlignedTiltAxis (direction x/y), Real/ReciprocalSpaceAxis, WaveVectorAxis with "
        "randomised non-default values in every dataclass field (units, labels, tex labels, _ensemble_mean, _main, _squeeze, "
        "_concatenate, endpoint, fftshift, direction); PlaneWave / Probe / BeamTilt2D / BeamTilt with tilt distributions along y, x "
        "or both, partitioned as owners and as the waves they build; chunkings: random compositions per axis, uniform int chunk sizes (below, equal, above the axis), "
        "-1, mixes, a bare int element limit; non-trivial = some axis split into >=2 blocks; distinct = distinct case signature")
CLAUSES = ["block-grid", "eager-slices", "members-exactly-once:eager", "members-exactly-once:lazy", "members-order:eager",
           "members-order:lazy", "axes-metadata:eager", "axes-metadata:lazy", "lazy-equals-eager", "block-type", "owner-axes"]
QUICK = dict(n=420, time=40)
THOROUGH = dict(n=128000, time=480, shards=16)


# --------------------------------------------------------------------------- generation
def _composition(rng, n):
    k = int(rng.integers(1, min(n, 5) + 1))
    cuts = np.sort(rng.choice(np.arange(1, n), size=k - 1, replace=False)) if k > 1 else np.array([], dtype=int)
    return [int(x) for x in np.diff(np.concatenate([[0], cuts, [n]]))]


def gen_chunks(rng, shape, last_fixed=False):
    """Chunk specification for an ensemble shape: list per axis (list / int / -1) or a bare int limit."""
    if len(shape) and rng.random() < 0.06 and not last_fixed:
        return int(rng.integers(1, int(np.prod(shape)) + 3))
    spec = []
    for i, n in enumerate(shape):
        if last_fixed and i == len(shape) - 1:
            spec.append(-1 if rng.random() < 0.5 else [n])
            continue
        r = rng.random()
        if r < 0.6:
            spec.append(_composition(rng, n))
        elif r < 0.85:
            spec.append(int(rng.integers(1, n + 3)))
        else:
            spec.append(-1)
    return spec


def _dist(rng):
    n = int(rng.integers(1, 7))
    k = rng.random()
    if k < 0.35:
        lo = float(rng.uniform(-50, 50))
        return {"d": "uniform", "low": lo, "high": lo + float(rng.uniform(1, 50)), "n": n}
    if k < 0.6:
        return {"d": "gaussian", "sigma": float(rng.uniform(0.5, 20)), "n": n, "center": float(rng.uniform(-30, 30))}
    vals = np.round(rng.permutation(np.arange(1, 40))[:n] * float(rng.uniform(0.5, 2)), 4).tolist()
    w = None if rng.random() < 0.3 else np.round(rng.uniform(0.05, 1, size=n), 4).tolist()
    return {"d": "values", "values": vals, "weights": w}


def _dist_len(d):
    return d["n"] if "n" in d else len(d["values"])


ARRAY_TYPES = ["Waves", "Images", "DiffractionPatterns", "RealSpaceLineProfiles", "ReciprocalSpaceLineProfiles",
               "PolarMeasurements", "PotentialArray", "SMatrixArray"]
AXIS_TYPES = ["ordinal", "parameter", "thickness", "positions", "scan", "frozen", "unknown", "tilt", "tilt_aligned",
              "tilt_aligned", "nonlinear", "wavevector", "realspace", "reciprocal", "sample", "prism"]


def gen(rng, tier):
    kind = str(rng.choice(["grid", "grid", "line", "custom", "dist", "dist", "fp", "ae", "array", "array", "array", "pot", "mt",
                           "tilt", "tilt"]))
    c = {"kind": kind}
    if kind == "tilt":
        return gen_tilt(rng)
    if kind == "grid":
        g = [int(rng.integers(1, 10)), int(rng.integers(1, 10))]
        ep = rng.random()
        c.update(start=[float(rng.uniform(-5, 5)), float(rng.uniform(-5, 5))],
                 extent=[float(rng.uniform(0.5, 10)), float(rng.uniform(0.5, 10))], gpts=g,
                 endpoint=False if ep < 0.5 else (True if ep < 0.8 else [bool(rng.random() < 0.5), bool(rng.random() < 0.5)]),
                 precision=str(rng.choice(["float32", "float64"])))
        if c["endpoint"] is True or (isinstance(c["endpoint"], list) and any(c["endpoint"])):
            c["gpts"] = [max(2, x) for x in g]
        shape = c["gpts"]
    elif kind == "line":
        n = int(rng.integers(1, 25))
        ep = bool(rng.random() < 0.5)
        if ep:
            n = max(2, n)
        c.update(start=[float(rng.uniform(-5, 5)), float(rng.uniform(-5, 5))],
                 end=[float(rng.uniform(6, 15)) * float(rng.choice([-1, 1])), float(rng.uniform(-5, 15))], gpts=n, endpoint=ep,
                 precision=str(rng.choice(["float32", "float64"])))
        shape = [n]
    elif kind == "custom":
        n = int(rng.integers(1, 25))
        c.update(n=n, pos_seed=int(rng.integers(0, 2 ** 31)))
        shape = [n]
    elif kind == "dist":
        cls = str(rng.choice(["CTF", "CTF", "Aberrations", "Aperture", "TemporalEnvelope"]))
        if cls == "CTF":
            names = ["defocus", "Cs", "astigmatism", "coma", "semiangle_cutoff", "C32", "focal_spread"]
            k = int(rng.choice([1, 2, 2, 3, 3, 4]))
        elif cls == "Aberrations":
            names = ["C10", "C12", "C21", "C30", "phi12", "C23"]
            k = int(rng.choice([1, 2, 3]))
        elif cls == "Aperture":
            names, k = ["semiangle_cutoff"], 1
        else:
            names, k = ["focal_spread"], 1
        chosen = [str(x) for x in rng.choice(names, size=k, replace=False)]
        params = {}
        for nm in chosen:
            d = _dist(rng)
            if nm in ("semiangle_cutoff", "focal_spread"):
                d = {"d": "uniform", "low": float(rng.uniform(5, 10)), "high": float(rng.uniform(12, 30)), "n": _dist_len(d)}
            params[nm] = d
        c.update(cls=cls, params=params)
        shape = None    # axis order is decided by the class; chunks drawn from sizes at check time via chunk_seed
        c["chunk_seed"] = int(rng.integers(0, 2 ** 31))
    elif kind in ("fp", "pot", "mt"):
        n = int(rng.integers(1, 10))
        seeds = int(rng.integers(0, 10 ** 6)) if rng.random() < 0.5 else \
            [int(x) for x in rng.choice(10 ** 6, size=n, replace=False)]
        c.update(cell=G.rand_cell_case(rng, max_atoms=3, max_xy=5.0, max_z=4.0), num_configs=n, seed=seeds,
                 sigmas=float(rng.uniform(0.02, 0.2)), ensemble_mean=bool(rng.random() < 0.5))
        shape = [n]
        if kind in ("pot", "mt"):
            c["exit_planes"] = None if rng.random() < 0.5 else int(rng.integers(1, 3))
    elif kind == "ae":
        n = int(rng.integers(1, 10))
        c.update(cell=G.rand_cell_case(rng, max_atoms=3, max_xy=5.0, max_z=4.0), n=n,
                 container=str(rng.choice(["list", "ndarray", "dask"])), ensemble_mean=bool(rng.random() < 0.5))
        shape = [n]
    else:
        t = str(rng.choice(ARRAY_TYPES))
        nd = int(rng.choice([0, 1, 1, 2, 2, 3]))
        shape = [int(rng.integers(1, 6)) for _ in range(nd)]
        axes = []
        for _ in range(nd):
            ak = str(rng.choice(AXIS_TYPES))
            # half of the axes carry non-default values in the fields their class declares
            axes.append({"kind": ak, "opts": rand_axis_opts(rng, ak)} if rng.random() < 0.6 or ak == "tilt_aligned" else ak)
        c.update(type=t, shape=shape, axes=axes, lazy=bool(rng.random() < 0.5),
                 own_chunks=gen_chunks(rng, shape), base=[int(rng.integers(2, 6)), int(rng.integers(2, 6))])
        if isinstance(c["own_chunks"], int):
            c["own_chunks"] = [-1] * nd
    if shape is not None:
        c["chunks"] = gen_chunks(rng, shape)
        if kind == "mt" and c.get("exit_planes") is not None and isinstance(c["chunks"], int):
            c["chunks"] = [c["chunks"]]
    c["none_chunks"] = bool(rng.random() < 0.15)
    return c


def gen_tilt(rng):
    """Objects that own tilt axes: PlaneWave / Probe with tilt along y, x or both, BeamTilt2D, BeamTilt (N x 2 values);
    partitioned as builders/transforms (`stage` owner) or as the waves they build (`stage` waves, eager or lazy)."""
    owner = str(rng.choice(["PlaneWave", "PlaneWave", "Probe", "BeamTilt2D", "BeamTilt"]))
    c = {"kind": "tilt", "owner": owner, "chunk_seed": int(rng.integers(0, 2 ** 31)), "none_chunks": False,
         "ensemble_mean": bool(rng.random() < 0.3)}
    if owner == "BeamTilt":
        n = int(rng.integers(1, 8))
        c["values"] = np.round(rng.uniform(-20, 20, size=(n, 2)) + np.arange(n)[:, None] * 50.0, 3).tolist()
        c["weights"] = None if rng.random() < 0.4 else np.round(rng.uniform(0.05, 1, size=n), 4).tolist()
    else:
        which = str(rng.choice(["y", "y", "x", "xy"]))
        c["tx"] = _dist(rng) if "x" in which else float(rng.choice([0.0, float(rng.uniform(-5, 5))]))
        c["ty"] = _dist(rng) if "y" in which else float(rng.choice([0.0, float(rng.uniform(-5, 5))]))
        for k in ("tx", "ty"):
            if isinstance(c[k], dict) and c[k]["d"] == "gaussian":
                c[k] = {"d": "uniform", "low": -c[k]["sigma"], "high": c[k]["sigma"] + 1.0, "n": c[k]["n"]}
    if owner == "Probe" and rng.random() < 0.5:
        c["defocus"] = {"d": "uniform", "low": 0.0, "high": 40.0, "n": int(rng.integers(1, 4))}
    c["stage"] = "owner" if owner in ("BeamTilt2D", "BeamTilt") else str(rng.choice(["owner", "waves", "waves"]))
    c["lazy"] = bool(rng.random() < 0.5)
    return c


def fixed_cases(tier):
    cell = {"cell": [4.0, 4.0, 4.0], "symbols": ["C", "Si"], "positions": [[0.5, 0.5, 1.0], [2.0, 2.0, 3.0]]}
    return [
        {"kind": "grid", "start": [0.0, 0.0], "extent": [2.0, 3.0], "gpts": [5, 4], "endpoint": False, "precision": "float32",
         "chunks": [[2, 3], [1, 3]], "none_chunks": True},
        {"kind": "grid", "start": [1.0, -2.0], "extent": [2.0, 3.0], "gpts": [5, 4], "endpoint": True, "precision": "float64",
         "chunks": [2, 3], "none_chunks": False},
        {"kind": "line", "start": [0.0, 0.0], "end": [2.0, 3.0], "gpts": 7, "endpoint": True, "precision": "float64",
         "chunks": [[2, 4, 1]], "none_chunks": False},
        {"kind": "custom", "n": 6, "pos_seed": 1, "chunks": [[1, 1, 4]], "none_chunks": False},
        {"kind": "dist", "cls": "CTF", "params": {"defocus": {"d": "uniform", "low": 0.0, "high": 10.0, "n": 4},
                                                   "Cs": {"d": "gaussian", "sigma": 5.0, "n": 3, "center": 1.0},
                                                   "astigmatism": {"d": "values", "values": [1.0, 2.0, 3.0],
                                                                   "weights": [0.2, 0.3, 0.5]}},
         "chunk_seed": 5, "none_chunks": False},
        {"kind": "fp", "cell": cell, "num_configs": 5, "seed": [5, 9, 2, 7, 1], "sigmas": 0.1, "ensemble_mean": True,
         "chunks": [[2, 3]], "none_chunks": True},
        {"kind": "ae", "cell": cell, "n": 5, "container": "list", "ensemble_mean": True, "chunks": [[1, 4]], "none_chunks": True},
        {"kind": "mt", "cell": cell, "num_configs": 4, "seed": 3, "sigmas": 0.1, "ensemble_mean": False, "exit_planes": 1,
         "chunks": [[1, 3], -1], "none_chunks": False},
        {"kind": "array", "type": "Waves", "shape": [2, 3], "axes": ["ordinal", "scan"], "lazy": False,
         "own_chunks": [-1, -1], "base": [4, 4], "chunks": [[1, 1], [1, 2]], "none_chunks": True},
        # axis classes with fields of their own, set to non-default values (tilt direction y, _main, endpoint, fftshift ...)
        {"kind": "array", "type": "Waves", "shape": [5, 3],
         "axes": [{"kind": "tilt_aligned", "opts": {"direction": "y", "_ensemble_mean": True, "tex_label": "$t_y$"}},
                  {"kind": "scan", "opts": {"_main": False, "endpoint": True, "units": "nm", "_squeeze": True}}],
         "lazy": False, "own_chunks": [-1, -1], "base": [4, 4], "chunks": [[2, 3], [1, 2]], "none_chunks": False},
        {"kind": "array", "type": "DiffractionPatterns", "shape": [4, 2, 3],
         "axes": [{"kind": "tilt_aligned", "opts": {"direction": "y"}},
                  {"kind": "reciprocal", "opts": {"fftshift": False, "_concatenate": False}},
                  {"kind": "parameter", "opts": {"units": "deg", "_default_type": "overlay", "label": "phi12"}}],
         "lazy": True, "own_chunks": [[1, 3], -1, -1], "base": [4, 4], "chunks": [[1, 1, 2], -1, 2], "none_chunks": False},
        {"kind": "tilt", "owner": "PlaneWave", "tx": 0.0,
         "ty": {"d": "values", "values": [-12.0, -4.0, 3.0, 9.0, 20.0], "weights": [0.1, 0.2, 0.3, 0.2, 0.2]},
         "stage": "waves", "lazy": False, "chunk_seed": 3, "none_chunks": False, "ensemble_mean": False},
        {"kind": "tilt", "owner": "Probe", "tx": {"d": "uniform", "low": -1.0, "high": 1.0, "n": 3},
         "ty": {"d": "uniform", "low": 2.0, "high": 6.0, "n": 4}, "defocus": {"d": "uniform", "low": 0.0, "high": 40.0, "n": 2},
         "stage": "waves", "lazy": True, "chunk_seed": 4, "none_chunks": False, "ensemble_mean": True},
        {"kind": "tilt", "owner": "PlaneWave", "tx": 1.5, "ty": {"d": "uniform", "low": 2.0, "high": 6.0, "n": 4},
         "stage": "owner", "lazy": False, "chunk_seed": 5, "none_chunks": False, "ensemble_mean": False},
    ]


# --------------------------------------------------------------------------- chunk model
def model_chunks(shape, spec):
    """Validated chunks for tuple-form specifications, from first principles; None for a bare int."""
    if isinstance(spec, int):
        return None
    out = []
    for n, c in zip(shape, spec):
        if isinstance(c, list):
            out.append(tuple(c))
        elif c == -1:
            out.append((n,))
        else:
            full, rest = divmod(n, c)
            out.append((c,) * full + ((rest,) if rest else ()))
    return tuple(out)


def call_spec(spec):
    if isinstance(spec, int):
        return spec
    return tuple(tuple(c) if isinstance(c, list) else c for c in spec)


# --------------------------------------------------------------------------- axis metadata descriptors
def describe_axis(a, n):
    """All dataclass fields of the axis (whatever its class declares), its class name, and the derived quantities
    that consumers read (`tilt` of tilt axes, `coordinates` of linear axes)."""
    import dataclasses
    from abtem.core.axes import LinearAxis, OrdinalAxis
    fields = {f.name: G.norm(getattr(a, f.name)) for f in dataclasses.fields(a)}
    d = {"type": type(a).__name__, "label": a.label, "units": a.units, "ensemble_mean": bool(a._ensemble_mean),
         "fields": fields}
    if isinstance(a, OrdinalAxis):
        d["values"] = G.norm(list(a.values))
        fields.pop("values", None)
        if hasattr(a, "tilt"):
            d["tilt"] = G.norm([list(t) for t in a.tilt])
    elif isinstance(a, LinearAxis):
        d["offset"] = float(a.offset)
        d["sampling"] = float(a.sampling)
        d["coords"] = [float(x) for x in a.coordinates(n)]
        fields.pop("offset", None)
        if hasattr(a, "endpoint"):
            d["endpoint"] = bool(a.endpoint)
    return d


def _field_diff(block_fields, orig_fields, tol, ignore=()):
    keys = sorted((set(block_fields) | set(orig_fields)) - set(ignore))
    return [k for k in keys if k not in block_fields or k not in orig_fields or
            not G.approx_struct(block_fields[k], orig_fields[k], 1e-9, tol)]


def judge_axes(ctx, mode, orig_axes, orig_shape, blocks, chunks, tol, linear_mode="shifted-or-carried",
               ignore_endpoint=False):
    """blocks: dict block_index -> object; reassemble every ensemble axis and compare with the original."""
    clause = "axes-metadata:" + mode
    nd = len(orig_shape)
    for ax in range(nd):
        o = describe_axis(orig_axes[ax], orig_shape[ax])
        per_chunk = []
        consistent = True
        for i in range(len(chunks[ax])):
            ds = []
            for idx, obj in blocks.items():
                if idx[ax] != i:
                    continue
                m = obj.ensemble_axes_metadata
                if len(m) != nd:
                    ctx.expect(False, clause, reason="number of ensemble axes of a block", block=idx, got=len(m), want=nd)
                    return
                ds.append(describe_axis(m[ax], chunks[ax][i]))
            consistent &= all(G.approx_struct(x, ds[0], 1e-9, tol) for x in ds)
            per_chunk.append(ds[0])
        ctx.expect(consistent, clause, reason="blocks sharing an index along the axis disagree on its metadata", axis=ax)
        same_kind = all(d["type"] == o["type"] and d["label"] == o["label"] and d["units"] == o["units"] and
                        d["ensemble_mean"] == o["ensemble_mean"] for d in per_chunk)
        ctx.expect(same_kind, clause, reason="type/label/units/ensemble_mean of a block axis differ from the original", axis=ax,
                   original={k: o[k] for k in ("type", "label", "units", "ensemble_mean")},
                   blocks=[{k: d[k] for k in ("type", "label", "units", "ensemble_mean")} for d in per_chunk][:4])
        if not same_kind:
            continue
        # every field the axis class declares (direction, units, labels, tex labels, _ensemble_mean, _main, _squeeze,
        # _concatenate, _default_type, endpoint, fftshift, sampling ...) must survive; only the per-member content
        # (`values` of ordinal axes, `offset` of linear axes) is allowed to be the block's share of the original
        ignore = ("endpoint",) if ignore_endpoint else ()
        diffs = [(i, _field_diff(d["fields"], o["fields"], tol, ignore)) for i, d in enumerate(per_chunk)]
        diffs = [(i, k) for i, k in diffs if k]
        ctx.expect(not diffs, clause, reason="fields of a block axis differ from the original axis", axis=ax,
                   axis_type=o["type"], differing=diffs[:4],
                   original={k: o["fields"].get(k) for _, ks in diffs[:1] for k in ks},
                   block={k: per_chunk[diffs[0][0]]["fields"].get(k) for k in diffs[0][1]} if diffs else None)
        if "values" in o:
            cat = [v for d in per_chunk for v in d["values"]]
            ctx.expect(G.approx_struct(cat, o["values"], 1e-6, tol), clause, reason="ordinal values", axis=ax, got=cat,
                       want=o["values"])
            if "tilt" in o:
                cat = [v for d in per_chunk for v in d.get("tilt", [])]
                ctx.expect(G.approx_struct(cat, o["tilt"], 1e-6, tol), clause, reason="tilt vectors of the block axes",
                           axis=ax, got=cat, want=o["tilt"])
        elif "coords" in o:
            nonempty = [d for d, c in zip(per_chunk, chunks[ax]) if c > 0]
            ok_s = all(abs(d["sampling"] - o["sampling"]) <= 1e-9 * abs(o["sampling"]) + tol * 1e-3 for d in nonempty)
            ctx.expect(ok_s, clause, reason="sampling of a linear block axis", axis=ax, want=o["sampling"],
                       got=[d["sampling"] for d in per_chunk])
            cat = [v for d in nonempty for v in d["coords"]]
            shifted = len(cat) == len(o["coords"]) and bool(np.all(np.abs(np.array(cat) - np.array(o["coords"])) <= tol))
            carried = all(abs(d["offset"] - o["offset"]) <= tol for d in nonempty)
            if linear_mode == "shifted":
                ctx.expect(shifted, clause, reason="coordinates of the block axes do not concatenate to the original ones",
                           axis=ax, got=cat, want=o["coords"])
            elif linear_mode == "spacing-only":
                pass
            else:
                ctx.expect(shifted or carried, clause, reason="linear axis neither shifted per block nor carried unchanged",
                           axis=ax, got=[d["offset"] for d in per_chunk], want=o["offset"])
                if carried and not shifted:
                    ctx.note("linear-axis-carried-unchanged-in-blocks")
            if not ignore_endpoint and "endpoint" in o and len(chunks[ax]) == 1:
                ctx.expect(per_chunk[0]["endpoint"] == o["endpoint"] or linear_mode != "shifted-or-carried", clause,
                           reason="endpoint flag", axis=ax)


# --------------------------------------------------------------------------- adapters
class Adapter:
    """build(case) -> ensemble; tables(obj) -> dict name -> ndarray (ensemble shape first); tolerances."""
    tol = 0.0
    linear_mode = "shifted-or-carried"
    block_type = None
    judge_meta = True

    def tables(self, obj):
        raise NotImplementedError

    def shape(self, ens):
        return tuple(int(s) for s in ens.ensemble_shape)


class GridAdapter(Adapter):
    linear_mode = "shifted"

    def build(self, case):
        import abtem
        self.tol = 1e-10 if case["precision"] == "float64" else 3e-6
        s = case["start"]
        e = [s[0] + case["extent"][0], s[1] + case["extent"][1]]
        ep = case["endpoint"] if isinstance(case["endpoint"], bool) else tuple(case["endpoint"])
        return abtem.GridScan(start=tuple(s), end=tuple(e), gpts=tuple(case["gpts"]), endpoint=ep)

    def tables(self, obj):
        return {"positions": np.asarray(obj.get_positions(), dtype=float)}


class LineAdapter(Adapter):
    linear_mode = "spacing-only"     # a LineScan's axis always measures from its own start

    def build(self, case):
        import abtem
        self.tol = 1e-10 if case["precision"] == "float64" else 5e-6
        return abtem.LineScan(start=tuple(case["start"]), end=tuple(case["end"]), gpts=case["gpts"], endpoint=case["endpoint"])

    def tables(self, obj):
        return {"positions": np.asarray(obj.get_positions(), dtype=float)}


class CustomAdapter(Adapter):
    def build(self, case):
        import abtem
        rng = np.random.default_rng(case["pos_seed"])
        pos = rng.uniform(-10, 10, size=(case["n"], 2)) + np.arange(case["n"])[:, None] * 100.0   # unique, ordered ids
        return abtem.CustomScan(pos)

    def tables(self, obj):
        return {"positions": np.asarray(obj.get_positions(), dtype=float)}


def _make_dist(d):
    from abtem import distributions as D
    if d["d"] == "uniform":
        return D.uniform(d["low"], d["high"], d["n"])
    if d["d"] == "gaussian":
        return D.gaussian(d["sigma"], d["n"], center=d["center"])
    return D.from_values(np.array(d["values"]), None if d["weights"] is None else np.array(d["weights"]))


class DistAdapter(Adapter):
    tol = 0.0

    def build(self, case):
        import abtem
        cls = {"CTF": abtem.CTF, "Aberrations": abtem.transfer.Aberrations, "Aperture": abtem.transfer.Aperture,
               "TemporalEnvelope": abtem.transfer.TemporalEnvelope}[case["cls"]]
        kw = {k: _make_dist(v) for k, v in case["params"].items()}
        if case["cls"] in ("CTF", "Aperture") and "semiangle_cutoff" not in kw:
            kw["semiangle_cutoff"] = 20.0
        if case["cls"] == "TemporalEnvelope" and "focal_spread" not in kw:
            kw["focal_spread"] = 10.0
        ens = cls(energy=100e3, **kw)
        self.names = list(ens._distribution_properties.keys())
        return ens

    def tables(self, obj):
        dists = [getattr(obj, nm) for nm in self.names]
        vals = [np.asarray(d.values, dtype=float).reshape(-1) for d in dists]
        wts = [np.asarray(d.weights, dtype=float).reshape(-1) for d in dists]
        out = {}
        for k, nm in enumerate(self.names):
            out["values:" + nm] = np.meshgrid(*vals, indexing="ij")[k] if len(vals) > 1 else vals[0]
            out["weights:" + nm] = np.meshgrid(*wts, indexing="ij")[k] if len(wts) > 1 else wts[0]
        return out


class FPAdapter(Adapter):
    def build(self, case):
        import abtem
        atoms = G.atoms_from(case["cell"])
        seed = case["seed"] if isinstance(case["seed"], int) else tuple(case["seed"])
        return abtem.FrozenPhonons(atoms, num_configs=case["num_configs"], sigmas=case["sigmas"], seed=seed,
                                   ensemble_mean=case["ensemble_mean"])

    def fp(self, obj):
        return obj

    def tables(self, obj):
        fp = self.fp(obj)
        seeds = np.asarray([int(s) for s in fp.seed], dtype=np.int64)
        # the displaced configurations themselves, in ensemble order
        traj = fp.to_atoms_ensemble().trajectory
        pos = np.stack([np.asarray(a.positions, dtype=float) for a in traj]) if len(seeds) else np.zeros((0, 1, 3))
        return {"seeds": seeds, "configurations": pos}


class PotAdapter(FPAdapter):
    def build(self, case):
        import abtem
        fp = FPAdapter.build(self, case)
        return abtem.Potential(fp, gpts=(8, 8), slice_thickness=1.0, exit_planes=case["exit_planes"])

    def fp(self, obj):
        return obj.frozen_phonons

    def tables(self, obj):
        t = FPAdapter.tables(self, obj)
        t.pop("configurations")
        return t


class MTAdapter(FPAdapter):
    def build(self, case):
        import abtem
        from abtem.multislice import MultisliceTransform
        fp = FPAdapter.build(self, case)
        pot = abtem.Potential(fp, gpts=(8, 8), slice_thickness=1.0, exit_planes=case["exit_planes"])
        return MultisliceTransform(pot, detectors=abtem.PixelatedDetector())

    def tables(self, obj):
        seeds = np.asarray([int(s) for s in obj.potential.frozen_phonons.seed], dtype=np.int64)
        shape = tuple(obj.ensemble_shape)
        if len(shape) == 2:
            planes = np.asarray(obj.potential.exit_planes, dtype=np.int64)
            return {"seeds": np.broadcast_to(seeds[:, None], shape).copy(),
                    "exit-planes": np.broadcast_to(planes[None, :], shape).copy()}
        return {"seeds": seeds}


class AEAdapter(Adapter):
    def build(self, case):
        import abtem
        import dask
        import dask.array as da
        base = G.atoms_from(case["cell"])
        traj = []
        for i in range(case["n"]):
            a = base.copy()
            a.positions[0, 0] = 0.001 * (i + 1)      # the id of configuration i
            traj.append(a)
        if case["container"] == "ndarray":
            arr = np.empty(len(traj), dtype=object)
            for i, a in enumerate(traj):
                arr[i] = a
            traj = arr
        elif case["container"] == "dask":
            traj = [dask.delayed(a) for a in traj]
        return abtem.AtomsEnsemble(traj, ensemble_mean=case["ensemble_mean"])

    def tables(self, obj):
        t = obj.trajectory
        if hasattr(t, "compute"):
            t = t.compute()
        ids = np.asarray([float(a.positions[0, 0]) for a in np.asarray(t, dtype=object).ravel()]).reshape(np.shape(t))
        return {"ids": ids}


AXIS_OPTS = {
    "label": ["", "a", "tilt_y", "x, y"], "units": ["mrad", "Å", "deg", "1/Å", None], "tex_label": [None, "$\\alpha$"],
    "tex_units": [None, "$\\mathrm{mrad}$"], "_default_type": ["index", "range", "overlay"], "_concatenate": [True, False],
    "_ensemble_mean": [False, True], "_squeeze": [False, True]}


def rand_axis_opts(rng, kind):
    """Non-default values for the fields every axis class has, plus the class-specific ones."""
    opts = {}
    for key, choices in AXIS_OPTS.items():
        if rng.random() < 0.35:
            opts[key] = choices[int(rng.integers(0, len(choices)))]
    if kind in ("scan", "realspace", "reciprocal"):
        opts["sampling"] = float(rng.uniform(0.05, 2.0))
        opts["offset"] = float(rng.uniform(-5, 5))
    if kind in ("scan", "realspace"):
        opts["endpoint"] = bool(rng.random() < 0.5)
    if kind == "scan":
        opts["_main"] = bool(rng.random() < 0.5)
    if kind == "reciprocal":
        opts["fftshift"] = bool(rng.random() < 0.5)
    if kind == "tilt_aligned":
        opts["direction"] = str(rng.choice(["y", "x", "y"]))
    return opts


def _axis(kind, n, k):
    from abtem.core import axes as A
    opts = {}
    if isinstance(kind, dict):
        kind, opts = kind["kind"], dict(kind.get("opts", {}))
    vals = tuple(float(10 * k + i) + 0.5 for i in range(n))
    if kind == "ordinal":
        kw = dict(label="o%d" % k, values=tuple("m%d_%d" % (k, i) for i in range(n)))
        cls = A.OrdinalAxis
    elif kind == "nonlinear":
        kw, cls = dict(label="n%d" % k, values=vals), A.NonLinearAxis
    elif kind == "parameter":
        kw, cls = dict(label="C10", units="Å", values=vals), A.ParameterAxis
    elif kind == "thickness":
        kw, cls = dict(values=vals), A.ThicknessAxis
    elif kind == "positions":
        kw, cls = dict(values=tuple((v, -v) for v in vals)), A.PositionsAxis
    elif kind == "wavevector":
        kw, cls = dict(label="q", values=tuple((v, -v) for v in vals)), A.WaveVectorAxis
    elif kind == "tilt":
        kw, cls = dict(label="tilt", values=tuple((v, 2 * v) for v in vals)), A.TiltAxis
    elif kind == "tilt_aligned":
        d = opts.get("direction", "y")
        kw, cls = dict(label="tilt_" + d, values=vals, direction=d), A.AxisAlignedTiltAxis
    elif kind == "scan":
        kw, cls = dict(label="x", sampling=0.25 + 0.1 * k, offset=1.5 + k, units="Å", endpoint=False), A.ScanAxis
    elif kind == "realspace":
        kw, cls = dict(label="r", sampling=0.25 + 0.1 * k, offset=-1.5 + k, units="Å"), A.RealSpaceAxis
    elif kind == "reciprocal":
        kw, cls = dict(label="k", sampling=0.05 + 0.01 * k, offset=0.5 * k, units="1/Å"), A.ReciprocalSpaceAxis
    elif kind == "frozen":
        kw, cls = dict(_ensemble_mean=bool(k % 2)), A.FrozenPhononsAxis
    elif kind == "sample":
        kw, cls = dict(label="s"), A.SampleAxis
    elif kind == "prism":
        kw, cls = dict(), A.PrismPlaneWavesAxis
    else:
        kw, cls = dict(), A.UnknownAxis
    kw.update(opts)
    return cls(**kw)


class ArrayAdapter(Adapter):
    def build(self, case):
        import abtem
        import dask.array as da
        from abtem import measurements as M
        t = case["type"]
        shape = tuple(case["shape"])
        b = tuple(case["base"])
        base = {"Waves": b, "Images": b, "DiffractionPatterns": b, "RealSpaceLineProfiles": b[:1],
                "ReciprocalSpaceLineProfiles": b[:1], "PolarMeasurements": b, "PotentialArray": (2,) + b,
                "SMatrixArray": (3,) + b}[t]
        full = shape + base
        arr = np.arange(int(np.prod(full)), dtype=np.float64).reshape(full)
        dtype = np.complex64 if t in ("Waves", "SMatrixArray") else np.float32
        arr = (arr + (1j * (arr % 7) if dtype is np.complex64 else 0)).astype(dtype)
        if case["lazy"]:
            own = model_chunks(shape, case["own_chunks"]) + tuple((n,) for n in base)
            arr = da.from_array(arr, chunks=own)
        axes = [_axis(k, n, i) for i, (k, n) in enumerate(zip(case["axes"], shape))]
        kw = {"ensemble_axes_metadata": axes}
        if t == "Waves":
            return abtem.Waves(arr, energy=100e3, sampling=0.2, **kw)
        if t == "Images":
            return M.Images(arr, sampling=0.2, **kw)
        if t == "DiffractionPatterns":
            return M.DiffractionPatterns(arr, sampling=0.05, **kw)
        if t == "RealSpaceLineProfiles":
            return M.RealSpaceLineProfiles(arr, sampling=0.2, **kw)
        if t == "ReciprocalSpaceLineProfiles":
            return M.ReciprocalSpaceLineProfiles(arr, sampling=0.05, **kw)
        if t == "PolarMeasurements":
            return M.PolarMeasurements(arr, radial_sampling=1.0, azimuthal_sampling=0.5, **kw)
        if t == "PotentialArray":
            return abtem.PotentialArray(arr, slice_thickness=1.0, sampling=0.2, **kw)
        from abtem.prism.s_matrix import SMatrixArray
        return SMatrixArray(arr, wave_vectors=np.array([[0.0, 0.0], [0.1, 0.0], [0.0, 0.1]]), semiangle_cutoff=20.0,
                            energy=100e3, sampling=0.2, **kw)

    def tables(self, obj):
        return {"array": G.to_numpy(obj)}


class TiltAdapter(Adapter):
    """PlaneWave / Probe / BeamTilt2D / BeamTilt owning tilt axes; members = tilt vectors (and weights) per axis, or,
    for stage 'waves', the built wave functions whose ensemble axes are the owner's tilt (and defocus) axes."""

    def build(self, case):
        import abtem
        from abtem import distributions as D
        from abtem.tilt import BeamTilt, BeamTilt2D
        self.stage = case["stage"]

        def dist(d):
            if not isinstance(d, dict):
                return d
            out = _make_dist(d)
            out._ensemble_mean = case["ensemble_mean"]
            return out
        owner = case["owner"]
        if owner == "BeamTilt":
            t = D.from_values(np.array(case["values"]), None if case["weights"] is None else np.array(case["weights"]),
                              ensemble_mean=case["ensemble_mean"])
            return BeamTilt(t)
        tx, ty = dist(case["tx"]), dist(case["ty"])
        if owner == "BeamTilt2D":
            return BeamTilt2D(tx, ty)
        if owner == "PlaneWave":
            obj = abtem.PlaneWave(energy=100e3, extent=(6.0, 7.0), gpts=(8, 10), tilt=(tx, ty))
        else:
            kw = {"defocus": dist(case["defocus"])} if "defocus" in case else {}
            obj = abtem.Probe(energy=100e3, extent=(6.0, 7.0), gpts=(8, 10), semiangle_cutoff=20.0, tilt=(tx, ty), **kw)
        if self.stage == "waves":
            waves = obj.build(lazy=case["lazy"])
            want = [a for a in obj.ensemble_axes_metadata]
            self.owner_axes = want
            return waves
        return obj

    def tables(self, obj):
        if self.stage == "waves":
            return {"array": G.to_numpy(obj)}
        shape = tuple(int(n) for n in obj.ensemble_shape)
        tilt = obj.tilt if hasattr(obj, "aberrations") or hasattr(obj, "build") else obj
        per_axis = []
        if hasattr(tilt, "tilt_x"):
            for d in (tilt.tilt_x, tilt.tilt_y):
                if hasattr(d, "values"):
                    per_axis.append((np.asarray(d.values, dtype=float).reshape(len(d), -1), np.asarray(d.weights, dtype=float)))
        elif hasattr(tilt.tilt, "values"):
            d = tilt.tilt
            per_axis.append((np.asarray(d.values, dtype=float).reshape(len(d), -1), np.asarray(d.weights, dtype=float)))
        if hasattr(obj, "aberrations"):
            for nm, d in obj.aberrations._distribution_properties.items():
                per_axis.append((np.asarray(d.values, dtype=float).reshape(len(d), -1), np.asarray(d.weights, dtype=float)))
        out = {}
        for k, (v, w) in enumerate(per_axis):
            sh = [1] * len(shape)
            sh[k] = shape[k]
            out["values:%d" % k] = np.broadcast_to(v.reshape(sh + [v.shape[1]]), shape + (v.shape[1],)).copy()
            out["weights:%d" % k] = np.broadcast_to(w.reshape(sh), shape).copy()
        return out


ADAPTERS = {"tilt": TiltAdapter, "grid": GridAdapter, "line": LineAdapter, "custom": CustomAdapter, "dist": DistAdapter, "fp": FPAdapter,
            "pot": PotAdapter, "mt": MTAdapter, "ae": AEAdapter, "array": ArrayAdapter}


# --------------------------------------------------------------------------- reassembly
def reassemble(ctx, mode, ad, orig_tables, shape, blocks, tol):
    """blocks: dict block index -> object.  Block extents are taken from the blocks' own ensemble shapes, placed
    by cumulative sums along each axis (requires a consistent block grid, judged by the caller)."""
    nd = len(shape)
    nblocks = tuple(max(i[a] for i in blocks) + 1 for a in range(nd)) if nd else ()
    sizes = []
    for a in range(nd):
        sizes.append([tuple(blocks[tuple(i if k == a else 0 for k in range(nd))].ensemble_shape)[a] for i in range(nblocks[a])])
    starts = [np.concatenate([[0], np.cumsum(s)]) for s in sizes]
    out = {k: np.full(v.shape, np.nan if v.dtype.kind in "fc" else -1, dtype=v.dtype) for k, v in orig_tables.items()}
    count = np.zeros(shape, dtype=int)
    ok = True
    for idx, obj in blocks.items():
        bshape = tuple(int(s) for s in obj.ensemble_shape)
        want = tuple(sizes[a][idx[a]] for a in range(nd))
        if bshape != want:
            ctx.expect(False, "block-grid", mode=mode, reason="block extents do not form a grid", block=idx, got=bshape,
                       want=want)
            return
        sl = tuple(slice(int(starts[a][idx[a]]), int(starts[a][idx[a]] + sizes[a][idx[a]])) for a in range(nd))
        if any(s.stop > n for s, n in zip(sl, shape)):
            ctx.expect(False, "members-exactly-once:" + mode, reason="blocks overrun the ensemble", block=idx)
            return
        tabs = ad.tables(obj)
        for k, v in tabs.items():
            tgt = out[k][sl]
            if v.shape != tgt.shape:
                ctx.expect(False, "members-exactly-once:" + mode, reason="member table of a block has the wrong shape",
                           table=k, block=idx, got=list(v.shape), want=list(tgt.shape))
                ok = False
                continue
            out[k][sl] = v
        count[sl] += 1
    ctx.expect(bool(np.all(count == 1)), "members-exactly-once:" + mode, reason="coverage",
               missing=int((count == 0).sum()), repeated=int((count > 1).sum()), shape=shape)
    for k, v in orig_tables.items():
        if tol == 0 or v.dtype.kind not in "fc":
            same = bool(np.array_equal(out[k], v, equal_nan=v.dtype.kind in "fc"))
            ctx.expect(same, "members-order:" + mode, table=k, got=out[k], want=v)
        else:
            ctx.close(out[k], v, "members-order:" + mode, rtol=0, atol=tol, table=k)
    return ok


def check(ctx, case):
    import warnings
    import dask
    with warnings.catch_warnings():
        warnings.simplefilter("ignore")
        prec = case.get("precision", "float32")
        with G.precision(prec):
            _check(ctx, case, dask)


def _check(ctx, case, dask):
    ad = ADAPTERS[case["kind"]]()
    ens = ad.build(case)
    shape = ad.shape(ens)
    nd = len(shape)
    if case["kind"] in ("dist", "tilt"):
        rng = np.random.default_rng(case["chunk_seed"])
        spec = gen_chunks(rng, shape)
    else:
        spec = case["chunks"]
        if case["kind"] in ("pot", "mt") and not isinstance(spec, int) and len(spec) != nd:
            spec = list(spec)[:nd] if len(spec) > nd else list(spec) + [-1] * (nd - len(spec))
    want_chunks = model_chunks(shape, spec)
    orig = ad.tables(ens)
    for k, v in orig.items():
        if not ctx.expect(v.shape[:nd] == shape, "block-grid", reason="member table of the original", table=k,
                          got=list(v.shape), shape=shape):
            return
    orig_axes = list(ens.ensemble_axes_metadata)
    arg = call_spec(spec)
    if getattr(ad, "owner_axes", None) is not None:
        # waves built by an object that owns tilt / parameter axes carry exactly the owner's axes (every field)
        own = [describe_axis(a, n) for a, n in zip(ad.owner_axes, shape)]
        got = [describe_axis(a, n) for a, n in zip(orig_axes, shape)]
        ctx.expect(len(own) == len(got) and all(G.approx_struct(g, o, 1e-9, 1e-9) for g, o in zip(got, own)), "owner-axes",
                   got=got, want=own)

    # ---- eager
    eager = {}
    order = []
    slices = {}
    for idx, slic, block in ens.generate_blocks(arg):
        idx = tuple(int(i) for i in idx)
        ok = isinstance(block, np.ndarray) and block.dtype == object and block.size == 1
        if not ctx.expect(ok, "block-type", mode="eager", reason="block is not a 1-element object array", got=repr(block)[:80]):
            return
        eager[idx] = block.item()
        slices[idx] = slic
        order.append(idx)
    # ---- lazy
    lz = ens.ensemble_blocks(arg)
    ctx.expect(tuple(lz.shape) == shape, "block-grid", mode="lazy", reason="shape of the lazy block array", got=list(lz.shape),
               want=shape)
    comp = lz.compute()
    lazy = {tuple(int(i) for i in idx): comp[idx] for idx in np.ndindex(comp.shape)}

    for mode, blocks in (("eager", eager), ("lazy", lazy)):
        if not ctx.expect(len(blocks) > 0 or nd == 0, "block-grid", mode=mode, reason="no blocks"):
            return
        if nd == 0:
            continue
        ctx.expect(all(type(b) is type(ens) for b in blocks.values()), "block-type", mode=mode,
                   got=sorted({type(b).__name__ for b in blocks.values()}), want=type(ens).__name__)
        nblocks = tuple(max(i[a] for i in blocks) + 1 for a in range(nd))
        full = set(itertools.product(*(range(n) for n in nblocks)))
        if not ctx.expect(set(blocks) == full, "block-grid", mode=mode, reason="block indices are not a full grid",
                          got=sorted(blocks)[:10]):
            return
        if want_chunks is not None:
            got_chunks = tuple(tuple(int(blocks[tuple(i if k == a else 0 for k in range(nd))].ensemble_shape[a])
                                     for i in range(nblocks[a])) for a in range(nd))
            ctx.expect(got_chunks == want_chunks, "block-grid", mode=mode, reason="block extents differ from the chunking asked",
                       got=got_chunks, want=want_chunks)
        if mode == "lazy":
            ctx.expect(tuple(tuple(int(x) for x in c) for c in lz.chunks) ==
                       tuple(tuple(int(blocks[tuple(i if k == a else 0 for k in range(nd))].ensemble_shape[a])
                                   for i in range(nblocks[a])) for a in range(nd)),
                       "block-grid", mode=mode, reason="declared dask chunks differ from the blocks' ensemble shapes",
                       declared=lz.chunks)
        reassemble(ctx, mode, ad, orig, shape, blocks, ad.tol)
        if ad.judge_meta:
            chunks_seen = tuple(tuple(int(blocks[tuple(i if k == a else 0 for k in range(nd))].ensemble_shape[a])
                                      for i in range(nblocks[a])) for a in range(nd))
            judge_axes(ctx, mode, orig_axes, shape, blocks, chunks_seen, max(ad.tol, 1e-9), ad.linear_mode,
                       ignore_endpoint=case["kind"] in ("grid", "line"))
    if nd == 0:
        # an ensemble without ensemble axes is its own single block
        for mode, blocks in (("eager", eager), ("lazy", lazy)):
            ctx.expect(len(blocks) == 1, "block-grid", mode=mode, reason="0-d ensemble must give exactly one block")
            for b in blocks.values():
                t = ad.tables(b)
                ctx.expect(all(np.array_equal(t[k], orig[k]) for k in orig), "members-order:" + mode)
                ctx.expect(True, "members-exactly-once:" + mode)
                ctx.expect(type(b) is type(ens), "block-type", mode=mode)
        ctx.expect(True, "lazy-equals-eager")
        return

    # ---- eager bookkeeping: indices in C order, slices are the cumulative ranges of the block extents
    nblocks = tuple(max(i[a] for i in eager) + 1 for a in range(nd))
    ctx.expect(order == list(itertools.product(*(range(n) for n in nblocks))), "eager-slices", reason="block order",
               got=order[:10])
    sizes = [[int(eager[tuple(i if k == a else 0 for k in range(nd))].ensemble_shape[a]) for i in range(nblocks[a])]
             for a in range(nd)]
    starts = [np.concatenate([[0], np.cumsum(s)]) for s in sizes]
    good = True
    for idx, sl in slices.items():
        want = tuple((int(starts[a][idx[a]]), int(starts[a][idx[a] + 1])) for a in range(nd))
        got = tuple((s.start, s.stop) for s in sl)
        good &= got == want and all(s.step in (None, 1) for s in sl)
    ctx.expect(good, "eager-slices", reason="yielded slices differ from the cumulative block extents")

    # ---- lazy vs eager block by block
    same = set(eager) == set(lazy)
    if same:
        for idx in eager:
            te, tl = ad.tables(eager[idx]), ad.tables(lazy[idx])
            for k in te:
                if te[k].shape != tl[k].shape:
                    same = False
                elif ad.tol == 0 or te[k].dtype.kind not in "fc":
                    same &= bool(np.array_equal(te[k], tl[k]))
                else:
                    same &= bool(np.all(np.abs(te[k] - tl[k]) <= ad.tol))
    ctx.expect(same, "lazy-equals-eager", reason="block tables differ between generate_blocks and ensemble_blocks")

    # ---- default chunking (chunks=None): where abTEM accepts it, it must partition as well
    if case.get("none_chunks"):
        try:
            blocks = {tuple(int(i) for i in idx): b.item() for idx, _, b in ens.generate_blocks(None)} \
                if case["kind"] not in ("grid", "line", "custom", "dist") else None
            if blocks is None:
                blocks = {}
                comp = ens.ensemble_blocks(None).compute()
                blocks = {tuple(int(i) for i in idx): comp[idx] for idx in np.ndindex(comp.shape)}
        except ValueError as e:
            if "requires dtype" in str(e):
                ctx.note("default-chunks-refused:" + type(ens).__name__)
            else:
                raise
        else:
            reassemble(ctx, "eager", ad, orig, shape, blocks, ad.tol)
            ctx.note("default-chunks-partitioned:" + type(ens).__name__)
    ctx.nontrivial(any(n >= 2 for n in nblocks))
