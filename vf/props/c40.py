"""C40 Center of mass and integrated gradients are exact on analytic inputs.

Oracles (float64, independent of abTEM):

* centre of mass      sum_ij I_ij * k_ij with the *true* frequency of every pixel: (i - n//2)*s for the
                      shifted layout, numpy-fftfreq order for the unshifted layout; angles = k * lambda * 1e3
                      with our own relativistic wavelength.  Patterns have unit total (what abTEM's own
                      pipelines produce), so the first moment *is* the intensity-weighted mean.
* single bright pixel the frequency of that pixel, no arithmetic at all.
* plane-wave pipeline superpositions of tilted plane waves exp(2 pi i (h x/Lx + k y/Ly)) pushed through the real
                      Waves.diffraction_patterns (cropping, parity, both layouts): COM = sum |c|^2 (h/Lx, k/Ly).
* integrated gradient phi = random real trigonometric polynomial (Nyquist excluded); its analytic gradient is
                      given to Images.integrate_gradient; result - mean must equal phi - mean.
"""
import numpy as np

from vf import lib_diffraction as L

PROPERTY = "C40"
TECHNIQUE = "runtime monitoring; analytic oracle (float64 first moments with true per-pixel frequencies, analytic gradients of trigonometric polynomials)"
RULE = ("(a) DiffractionPatterns built directly: sizes 1-33 per axis (odd/even/rectangular), random reciprocal samplings, "
        "fftshift True/False, units 1/A and mrad, 0-3 ensemble axes with 0-2 scan axes in any position, eager/lazy, float32/float64, "
        "pattern = unit-total random non-negative or a single bright pixel at a random position (corners, Nyquist row included); "
        "(b) 1-4 tilted plane waves through Waves.diffraction_patterns (max_angle full/float, parity same/odd/even, both layouts); "
        "(c) random band-limited real periodic fields (1-6 Fourier components, Nyquist excluded) on grids 2-40 with anisotropic "
        "sampling, complex64/complex128, ensembles, eager/lazy; lazy arrays are chunked along ensemble axes and along the base axes "
        "(x only, y only, both; unequal chunks); 30-35 % of the cases are histories: the same input again in the same process with "
        "exactly one parameter changed (energy, layout, sampling/extent, data, chunking); non-trivial = pattern with >=2 pixels per axis and a non-central "
        "centre of mass, or a field with a non-zero component; distinct = distinct case signature")
CLAUSES = ["com-frequency", "com-angle", "com-single-pixel", "com-unshifted", "com-pipeline", "com-result-type",
           "gradient-integral", "gradient-integral-base-chunked", "history"]
QUICK = dict(n=600, time=40)
THOROUGH = dict(n=160000, time=480, shards=16)
ASSUMPTIONS = ["centre of mass is judged on unit-total patterns only: for other totals abTEM returns the first moment, not divided "
               "by the total, and the statement's mean is not defined by it",
               "gradient fields are exact gradients of fields without Nyquist components"]


# ----------------------------------------------------------------------------------- generation
def gen(rng, tier):
    u = rng.random()
    if u < 0.55:
        nx = int(rng.choice([1, 2, 3, 4, 5, 8, 9, int(rng.integers(1, 34))]))
        ny = nx if rng.random() < 0.3 else int(rng.choice([1, 2, 3, 4, 5, 8, 9, int(rng.integers(1, 34))]))
        spec = L.rand_axes(rng, max_axes=3, max_len=3)
        pattern = "pixel" if rng.random() < 0.45 else "random"
        corner = rng.random() < 0.3
        pos = [int(rng.choice([0, nx - 1, nx // 2])) if corner else int(rng.integers(0, nx)),
               int(rng.choice([0, ny - 1, ny // 2])) if corner else int(rng.integers(0, ny))]
        lazy = bool(rng.random() < 0.3)
        case = {"kind": "direct", "gpts": [nx, ny], "sampling": [float(rng.uniform(0.005, 0.3)), float(rng.uniform(0.005, 0.3))],
                "energy": float(rng.choice([30e3, 80e3, 100e3, 200e3, 300e3, float(10 ** rng.uniform(4, 6))])),
                "fftshift": bool(rng.random() < 0.5), "axes": spec, "chunks": [int(rng.integers(1, 4)) for _ in spec],
                "lazy": lazy, "base_chunks": (L.rand_base_chunks(rng, (nx, ny)) if lazy else None),
                "dtype": str(rng.choice(["float32", "float64"])), "pattern": pattern,
                "pos": pos, "seed": int(rng.integers(0, 2 ** 31))}
        if rng.random() < 0.35:
            # history: the same pattern again with exactly one parameter changed (state kept between calls must not leak)
            then = []
            for _ in range(int(rng.integers(1, 3))):
                k = int(rng.integers(0, 4))
                if k == 0:
                    then.append({"energy": float(rng.choice([20e3, 60e3, 150e3, 250e3, 1e6]))})
                elif k == 1:
                    then.append({"fftshift": not case["fftshift"]})
                elif k == 2:
                    then.append({"sampling": [float(rng.uniform(0.005, 0.3)), float(rng.uniform(0.005, 0.3))]})
                else:
                    then.append({"seed": int(rng.integers(0, 2 ** 31))})
            case["then"] = then
        return case
    if u < 0.75:
        nx = int(rng.integers(8, 41))
        ny = nx if rng.random() < 0.3 else int(rng.integers(8, 41))
        m = int(rng.integers(1, 5))
        hmax = [max(1, nx // 6), max(1, ny // 6)]
        comps = [[int(rng.integers(-hmax[0], hmax[0] + 1)), int(rng.integers(-hmax[1], hmax[1] + 1)),
                  float(rng.uniform(0.2, 1.0)), float(rng.uniform(0, 2 * np.pi))] for _ in range(m)]
        # distinct wave vectors, so intensities add without interference
        seen, uniq = set(), []
        for c in comps:
            if (c[0], c[1]) not in seen:
                seen.add((c[0], c[1]))
                uniq.append(c)
        # real-space sampling with an anisotropy of at most 2 (the antialias cutoff then keeps >= 1 pixel per axis)
        sx = float(rng.uniform(0.1, 0.8))
        sy = sx if rng.random() < 0.3 else float(sx * rng.uniform(0.5, 2.0))
        case = {"kind": "pipeline", "gpts": [nx, ny], "extent": [nx * sx, ny * sy],
                "energy": float(rng.choice([60e3, 100e3, 200e3, 300e3])), "comps": uniq,
                "fftshift": bool(rng.random() < 0.5), "max_angle": str(rng.choice(["full", "float", "cutoff"])),
                "parity": str(rng.choice(["same", "odd", "even"])), "lazy": bool(rng.random() < 0.25),
                "precision": str(rng.choice(["float32", "float64"]))}
        if rng.random() < 0.35:
            k = int(rng.integers(0, 3))
            case["then"] = [{"energy": float(rng.choice([30e3, 80e3, 150e3, 250e3]))} if k == 0 else
                            {"fftshift": not case["fftshift"]} if k == 1 else
                            {"extent": [case["extent"][0] * float(rng.uniform(0.6, 1.6)), case["extent"][1] * float(rng.uniform(0.6, 1.6))]}]
        return case
    nx = int(rng.choice([2, 3, 4, 5, int(rng.integers(2, 41)), int(rng.integers(2, 41))]))
    ny = nx if rng.random() < 0.3 else int(rng.choice([2, 3, 4, 5, int(rng.integers(2, 41)), int(rng.integers(2, 41))]))
    hx, hy = (nx - 1) // 2, (ny - 1) // 2
    comps = []
    for _ in range(int(rng.integers(1, 7))):
        h, k = int(rng.integers(-hx, hx + 1)), int(rng.integers(-hy, hy + 1))
        comps.append([h, k, float(rng.uniform(0.1, 2.0)), float(rng.uniform(0, 2 * np.pi))])
    spec = L.rand_axes(rng, max_axes=2, max_len=3)
    lazy = bool(rng.random() < 0.45)
    case = {"kind": "gradient", "gpts": [nx, ny], "sampling": [float(rng.uniform(0.02, 1.5)), float(rng.uniform(0.02, 1.5))],
            "comps": comps, "axes": spec, "chunks": [int(rng.integers(1, 4)) for _ in spec], "lazy": lazy,
            "base_chunks": (L.rand_base_chunks(rng, (nx, ny), p_split=0.75) if lazy else None),
            "dtype": str(rng.choice(["complex64", "complex128"])), "seed": int(rng.integers(0, 2 ** 31))}
    if rng.random() < 0.3:
        k = int(rng.integers(0, 3))
        case["then"] = [{"sampling": [float(rng.uniform(0.02, 1.5)), float(rng.uniform(0.02, 1.5))]} if k == 0 else
                        {"lazy": True, "base_chunks": L.rand_base_chunks(rng, (nx, ny), p_split=1.0)} if k == 1 else
                        {"seed": int(rng.integers(0, 2 ** 31)), "lazy": not lazy, "base_chunks": None}]
    return case


# ----------------------------------------------------------------------------------- checks
def _moment(I, fx, fy):
    """First moment sum I*(fx + i fy) over the last two axes, float64."""
    I = I.astype(np.float64)
    return (I * fx[:, None]).sum((-2, -1)) + 1j * (I * fy[None, :]).sum((-2, -1))


def check_direct(ctx, case):
    from abtem.measurements import DiffractionPatterns
    rng = np.random.default_rng(case["seed"])
    nx, ny = case["gpts"]
    spec = case["axes"]
    ens = L.axes_shape(spec)
    if case["pattern"] == "pixel":
        I = np.zeros(ens + (nx, ny))
        px = rng.integers(0, nx, size=ens) if ens else np.array(case["pos"][0])
        py = rng.integers(0, ny, size=ens) if ens else np.array(case["pos"][1])
        if ens:
            # first member sits on the requested (possibly corner / Nyquist) pixel
            px.flat[0], py.flat[0] = case["pos"]
        for idx in np.ndindex(*ens):
            I[idx + (int(px[idx]), int(py[idx]))] = 1.0
        if not ens:
            I[int(px), int(py)] = 1.0
    else:
        I = rng.random(ens + (nx, ny)) ** 3
        I = I / I.sum((-2, -1), keepdims=True)
    I = I.astype(case["dtype"])
    shifted = case["fftshift"]
    sx, sy = case["sampling"]
    fx = L.freq_index(nx, shifted) * sx
    fy = L.freq_index(ny, shifted) * sy
    arr = L.chunk_array(I, case["chunks"], base_chunks=case.get("base_chunks")) if case["lazy"] else I.copy()
    if case["lazy"] and case.get("base_chunks"):
        ctx.monitor("lazy-base-axes-chunked")
    dp = DiffractionPatterns(arr, sampling=(sx, sy), fftshift=shifted, metadata={"energy": case["energy"]},
                             ensemble_axes_metadata=L.make_axes(spec))
    lam = L.wavelength(case["energy"])
    for units, factor, clause in (("1/Å", 1.0, "com-frequency"), ("mrad", lam * 1e3, "com-angle")):
        out = dp.center_of_mass(units=units)
        got = L.as_numpy(out)
        want = L.to_reduced(_moment(I, fx * factor, fy * factor), spec)
        scale = max(float(np.abs(fx).max()), float(np.abs(fy).max())) * factor
        # abTEM's angular coordinates are float32 whatever the data type; frequency coordinates are float64
        if got.dtype == np.complex64:
            rtol = 2e-5
        elif units == "mrad" or case["dtype"] == "float32":
            rtol = 5e-6
        else:
            rtol = 1e-10
        names = [clause]
        if case["pattern"] == "pixel":
            names.append("com-single-pixel")
        if not shifted:
            names.append("com-unshifted")
        for name in names:
            ctx.close(got, want, name, rtol=rtol, atol=1e-30, scale=max(scale, 1e-300), units=units, fftshift=shifted,
                      gpts=[nx, ny])
        ctx.expect(type(out).__name__ == L.reduced_type_name(spec), "com-result-type", got=type(out).__name__,
                   want=L.reduced_type_name(spec))
    m = _moment(I, fx, fy)
    ctx.nontrivial(nx >= 2 and ny >= 2 and bool(np.abs(m).max() > 0))


def check_pipeline(ctx, case):
    import abtem
    nx, ny = case["gpts"]
    Lx, Ly = case["extent"]
    comps = case["comps"]
    w2 = np.array([c[2] for c in comps]) ** 2
    amp = np.sqrt(w2 / w2.sum())
    x = np.arange(nx)[:, None] / nx
    y = np.arange(ny)[None, :] / ny
    a = np.zeros((nx, ny), dtype=np.complex128)
    for c, am in zip(comps, amp):
        a += am * np.exp(2j * np.pi * (c[0] * x + c[1] * y) + 1j * c[3])
    a /= nx * ny           # |DFT|^2 then has unit total
    want_f = sum(am ** 2 * (c[0] / Lx + 1j * c[1] / Ly) for c, am in zip(comps, amp))
    lam = L.wavelength(case["energy"])
    with abtem.config.set({"precision": case["precision"]}):
        arr = a.astype(np.complex64 if case["precision"] == "float32" else np.complex128)
        if case["lazy"]:
            import dask.array as da
            arr = da.from_array(arr, chunks=arr.shape)
        w = abtem.Waves(arr, energy=case["energy"], extent=(Lx, Ly))
        if case["max_angle"] == "float":
            # an angle that keeps every component: beyond the largest |h|, |k| by a pixel
            s = [lam * 1e3 / Lx, lam * 1e3 / Ly]
            max_angle = max((max(abs(c[0]) for c in comps) + 1.3) * s[0], (max(abs(c[1]) for c in comps) + 1.3) * s[1])
        else:
            max_angle = case["max_angle"]
        dp = w.diffraction_patterns(max_angle=max_angle, fftshift=case["fftshift"], parity=case["parity"])
        total = float(L.as_numpy(dp).astype(np.float64).sum())
        if abs(total - 1) > 1e-4:
            # a component fell outside the requested crop (only possible for "cutoff"): not a unit-total pattern
            ctx.note("pipeline-component-cropped")
            return
        for units, factor in (("1/Å", 1.0), ("mrad", lam * 1e3)):
            got = L.as_numpy(dp.center_of_mass(units=units))
            scale = max(dp.shape[-2] // 2 / Lx, dp.shape[-1] // 2 / Ly) * factor
            ctx.close(got, np.asarray(want_f * factor), "com-pipeline", rtol=3e-5 if case["precision"] == "float32" else 1e-6,
                      scale=scale, units=units, fftshift=case["fftshift"], shape=list(dp.shape))
            if not case["fftshift"]:
                ctx.close(got, np.asarray(want_f * factor), "com-unshifted", rtol=3e-5 if case["precision"] == "float32" else 1e-6,
                          scale=scale, units=units, shape=list(dp.shape), via="pipeline")
    ctx.nontrivial(abs(want_f) > 0)


def check_gradient(ctx, case):
    from abtem.measurements import Images
    rng = np.random.default_rng(case["seed"])
    nx, ny = case["gpts"]
    dx, dy = case["sampling"]
    spec = case["axes"]
    ens = L.axes_shape(spec)
    Lx, Ly = nx * dx, ny * dy
    x = (np.arange(nx) * dx)[:, None]
    y = (np.arange(ny) * dy)[None, :]
    phi = np.zeros(ens + (nx, ny))
    gx = np.zeros_like(phi)
    gy = np.zeros_like(phi)
    # every ensemble member gets its own amplitudes (same wave vectors)
    for h, k, amp, th in case["comps"]:
        scale = rng.uniform(0.5, 1.5, size=ens + (1, 1)) if ens else 1.0
        arg = 2 * np.pi * (h * x / Lx + k * y / Ly) + th
        phi += scale * amp * np.cos(arg)
        gx += -scale * amp * 2 * np.pi * h / Lx * np.sin(arg)
        gy += -scale * amp * 2 * np.pi * k / Ly * np.sin(arg)
    g = (gx + 1j * gy).astype(case["dtype"])
    arr = L.chunk_array(g, case["chunks"], base_chunks=case.get("base_chunks")) if case["lazy"] else g.copy()
    split = case["lazy"] and bool(case.get("base_chunks"))
    if split:
        ctx.monitor("lazy-base-axes-chunked")
    im = Images(arr, sampling=(dx, dy), ensemble_axes_metadata=L.make_axes(spec))
    out = im.integrate_gradient()
    T = L.as_numpy(out).astype(np.float64)
    if not ctx.expect(T.shape == phi.shape, "gradient-integral", reason="shape", got=list(T.shape), want=list(phi.shape)):
        return
    got = T - T.mean((-2, -1), keepdims=True)
    want = phi - phi.mean((-2, -1), keepdims=True)
    rtol = 2e-5 if case["dtype"] == "complex64" else 1e-10
    for clause in ["gradient-integral"] + (["gradient-integral-base-chunked"] if split else []):
        ctx.close(got, want, clause, rtol=rtol, atol=1e-30, scale=max(float(np.abs(phi).max()), 1e-12),
                  gpts=[nx, ny], dtype=case["dtype"], lazy=case["lazy"], base_chunks=case.get("base_chunks"))
    ctx.nontrivial(any((c[0], c[1]) != (0, 0) for c in case["comps"]))


def check(ctx, case):
    steps = L.steps_of(case)
    for i, step in enumerate(steps):
        if i:
            ctx.monitor("history-steps")
            ctx.clauses["history"] += 1      # the step itself is judged by the clauses of its kind
        if step["kind"] == "direct":
            check_direct(ctx, step)
        elif step["kind"] == "pipeline":
            check_pipeline(ctx, step)
        else:
            check_gradient(ctx, step)


def fixed_cases(tier):
    out = []
    out.append({"kind": "pipeline", "gpts": [15, 12], "extent": [9.0, 7.0], "energy": 100e3, "comps": [[2, -1, 1.0, 0.3], [-1, 1, 0.5, 1.0]],
                "fftshift": False, "max_angle": "full", "parity": "same", "lazy": False, "precision": "float32"})
    out.append({"kind": "gradient", "gpts": [9, 8], "sampling": [0.3, 0.2], "comps": [[1, 0, 1.0, 0.0], [0, 2, 0.5, 1.0], [-3, 3, 0.2, 2.0]],
                "axes": [], "chunks": [], "lazy": False, "dtype": "complex128", "seed": 3})
    # lazy complex images split along x only / y only / both base axes, and along an ensemble axis
    for bc in ([12, 0], [0, 7], [5, 9]):
        out.append({"kind": "gradient", "gpts": [24, 20], "sampling": [0.3, 0.45], "comps": [[1, 0, 1.0, 0.3], [2, -3, 0.4, 1.0]],
                    "axes": [{"k": "O", "n": 3}], "chunks": [2], "lazy": True, "base_chunks": bc, "dtype": "complex64", "seed": 4})
    out.append({"kind": "direct", "gpts": [9, 8], "sampling": [0.05, 0.07], "energy": 100e3, "fftshift": False, "axes": [{"k": "S", "n": 3}],
                "chunks": [2], "lazy": True, "base_chunks": [4, 3], "dtype": "float32", "pattern": "random", "pos": [0, 0], "seed": 8,
                "then": [{"energy": 300e3}, {"fftshift": True}]})
    # single bright pixel at every position of a small odd x even pattern, both layouts (both units are judged per case)
    for (nx, ny) in ((5, 4), (2, 3)):
        for sh in (False, True):
            for px in range(nx):
                for py in range(ny):
                    out.append({"kind": "direct", "gpts": [nx, ny], "sampling": [0.05, 0.07], "energy": 100e3, "fftshift": sh,
                                "axes": [], "chunks": [], "lazy": False, "dtype": "float64", "pattern": "pixel", "pos": [px, py],
                                "seed": 1})
    return out
