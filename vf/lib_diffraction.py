"""Reference models shared by the diffraction-space checks (C12, C13, C14, C40).

Everything here is independent of abTEM: float64 numpy only.

* wavelength            relativistic electron wavelength (CODATA-2014, the set ase.units uses)
* freq_index            integer frequency index of every pixel for the shifted / unshifted layout
* direct_dft2           float64 matrix DFT (no FFT backend involved)
* ensemble axes         JSON spec -> abTEM axis metadata, and the axis order abTEM promises for
                        scanned measurements (non-scan axes first, then the <=2 main scan axes)
* sandwich sums         lower / upper bounds of an annular sum for a boundary margin eps
"""
from __future__ import annotations

import math

import numpy as np

H = 6.626070040e-34
C = 299792458.0
ME = 9.10938356e-31
E = 1.6021766208e-19


def wavelength(energy):
    """Relativistic de Broglie wavelength [Å] for an energy in eV."""
    return H * C / math.sqrt(energy * E * (energy * E + 2 * ME * C * C)) * 1e10


def freq_index(n, shifted):
    """Signed frequency index of each pixel of an axis of length n.

    shifted: zero frequency at n//2 (numpy fftshift layout); unshifted: numpy fftfreq order."""
    if shifted:
        return np.arange(n, dtype=np.int64) - n // 2
    k = np.arange(n, dtype=np.int64)
    k[k >= (n + 1) // 2] -= n          # 0..ceil(n/2)-1, -floor(n/2)..-1
    return k


def direct_dft2(a):
    """Unnormalised 2-D DFT over the last two axes, float64 matrix products, unshifted layout."""
    a = np.asarray(a).astype(np.complex128)
    nx, ny = a.shape[-2:]
    jx = np.arange(nx)
    jy = np.arange(ny)
    wx = np.exp(-2j * np.pi * ((jx[:, None] * jx[None, :]) % nx) / nx)
    wy = np.exp(-2j * np.pi * ((jy[:, None] * jy[None, :]) % ny) / ny)
    return np.einsum("ka,...ab,bl->...kl", wx, a, wy, optimize=True)


# ----------------------------------------------------------------------------- ensemble axes
def rand_axes(rng, max_axes=3, max_len=3, scan_last=False, kinds="SOU"):
    """Random ensemble-axes spec: list of {"k": "S"|"O"|"U", "n": len}."""
    m = int(rng.integers(0, max_axes + 1))
    spec = [{"k": str(rng.choice(list(kinds))), "n": int(rng.integers(1, max_len + 1))} for _ in range(m)]
    if scan_last:
        spec = [s for s in spec if s["k"] != "S"] + [s for s in spec if s["k"] == "S"][:2]
    return spec


def axes_shape(spec):
    return tuple(int(s["n"]) for s in spec)


def make_axes(spec):
    from abtem.core.axes import OrdinalAxis, ScanAxis, UnknownAxis
    out = []
    for i, s in enumerate(spec):
        if s["k"] == "S":
            out.append(ScanAxis(label="xy"[i % 2], sampling=0.1 * (i + 1) + 0.05, units="Å"))
        elif s["k"] == "O":
            out.append(OrdinalAxis(label="o%d" % i, values=tuple(range(s["n"]))))
        else:
            out.append(UnknownAxis())
    return out


def scan_positions(spec):
    """Indices of the (at most two, first) main scan axes."""
    return [i for i, s in enumerate(spec) if s["k"] == "S"][:2]


def scan_is_trailing(spec):
    sc = scan_positions(spec)
    return sc == list(range(len(spec) - len(sc), len(spec)))


def reduced_order(spec):
    """Axis permutation of a scanned reduction: non-scan ensemble axes, then the scan axes."""
    sc = scan_positions(spec)
    return [i for i in range(len(spec)) if i not in sc] + sc


def reduced_type_name(spec):
    return {0: "MeasurementsEnsemble", 1: "RealSpaceLineProfiles", 2: "Images"}[len(scan_positions(spec))]


def to_reduced(ref, spec):
    """Bring a reference array with the input ensemble-axes order into the promised output order."""
    ref = np.asarray(ref)
    return np.transpose(ref, reduced_order(spec)) if ref.ndim else ref


def chunk_array(a, spec_chunks, base_ndim=2, base_chunks=None):
    """dask array with the given ensemble chunk sizes; base axes in one chunk unless base_chunks gives a chunk
    size per base axis (None / 0 = whole axis)."""
    import dask.array as da
    ens = a.shape[: a.ndim - base_ndim]
    base = a.shape[a.ndim - base_ndim:]
    chunks = tuple(max(1, min(int(c), n)) for c, n in zip(spec_chunks, ens))
    if base_chunks is None:
        chunks += tuple(base)
    else:
        chunks += tuple(n if not c else max(1, min(int(c), n)) for c, n in zip(base_chunks, base))
    return da.from_array(a, chunks=chunks)


def rand_base_chunks(rng, shape, p_split=0.5):
    """None (whole images) or a chunk size per base axis: x only, y only or both axes split (unequal chunks likely)."""
    if rng.random() >= p_split:
        return None
    which = int(rng.integers(0, 3))
    out = [0, 0]
    for ax in range(2):
        if which == 2 or which == ax:
            out[ax] = int(rng.integers(1, max(2, shape[ax])))
    return out


def steps_of(case):
    """History cases: the case itself followed by copies in which the keys of each `then` entry are replaced."""
    base = {k: v for k, v in case.items() if k != "then"}
    return [base] + [dict(base, **ov) for ov in case.get("then", [])]


def as_numpy(x):
    arr = x.array if hasattr(x, "array") else x
    if hasattr(arr, "compute"):
        arr = arr.compute()
    return np.asarray(arr)


# ----------------------------------------------------------------------------- sandwich sums
def annular_bounds(intensity, r, inner, outer, eps):
    """(lower, upper) of sum(intensity over pixels with inner <= r < outer), intensity >= 0.

    lower counts pixels that are inside by more than eps, upper those inside with margin eps.
    intensity: (..., P) flattened pixels, r: (P,)."""
    # the zero-angle pixel and a limit of exactly 0 are exact in every arithmetic: 0 >= 0 needs no margin
    lo_mask = ((r >= inner + eps) | ((r == 0) & (inner == 0))) & (r < outer - eps)
    hi_mask = (r >= inner - eps) & (r < outer + eps)
    return intensity[..., lo_mask].sum(-1), intensity[..., hi_mask].sum(-1), int(hi_mask.sum() - lo_mask.sum())


def radial_bin_bounds(intensity, r, offset, step, nbins, eps):
    """Per-bin (lower, upper) for the bins [offset+k*step, offset+(k+1)*step), k < nbins.

    Returns arrays of shape (..., nbins)."""
    bm = np.floor((r - eps - offset) / step).astype(np.int64)
    bp = np.floor((r + eps - offset) / step).astype(np.int64)
    if offset == 0:
        bm = np.where(r == 0, 0, bm)       # exact: the zero-angle pixel belongs to the bin starting at exactly 0
    lead = intensity.shape[:-1]
    lo = np.zeros(lead + (nbins,))
    hi = np.zeros(lead + (nbins,))
    safe = bm == bp
    for b, sel, targets in ((bm, safe, (lo, hi)), (bm, ~safe, (hi,)), (bp, ~safe, (hi,))):
        ok = sel & (b >= 0) & (b < nbins)
        idx = np.nonzero(ok)[0]
        for t in targets:
            np.add.at(t, (Ellipsis, b[idx]), intensity[..., idx])
    return lo, hi


def within(ctx, got, lo, hi, clause, tol, **detail):
    """Sandwich oracle lo - tol <= got <= hi + tol; the excess is recorded as the residual."""
    got = np.asarray(got, dtype=np.float64)
    lo = np.asarray(lo, dtype=np.float64)
    hi = np.asarray(hi, dtype=np.float64)
    if got.shape != lo.shape:
        return ctx.expect(False, clause, reason="shape", got_shape=list(got.shape), want_shape=list(lo.shape), **detail)
    excess = np.maximum(np.maximum(lo - got, got - hi), 0.0)
    if excess.size:
        k = int(np.argmax(excess))
        detail = dict(detail, value=float(got.ravel()[k]), lower=float(lo.ravel()[k]), upper=float(hi.ravel()[k]))
    return ctx.close(excess, np.zeros_like(excess), clause, rtol=0.0, atol=tol, **detail)
