"""Non-default constructor arguments of Potential / parametrization / integrator for the C08-C11 workloads.

A JSON-able *options* dict describes how a potential is to be constructed; `kwargs(opts, projection, parametrization)`
turns it into keyword arguments for abtem.Potential, creating **new** parametrization and integrator objects on every call
(the two sides of a metamorphic pair never share an object unless a check wants them to).

    {}                                    defaults (projection / parametrization given by name)
    "sigmas": {"Si": 0.3, ...}            parametrization object constructed with a Gaussian broadening per element
    "integrator": {"type": "quadrature", cutoff_tolerance, taper, integration_step, quad_order, inner_cutoff_factor}
                  {"type": "scattering"}  ScatteringFactorProjectionIntegrals(parametrization object)
                  {"type": "gaussian"}    GaussianProjectionIntegrals() (finite, periodic, single precision inside)
    "periodic": False                     Potential(periodic=False); documented to matter only when a cell transformation
                                          is required, so for atoms inside an orthogonal cell periodicity is still promised
                                          (`prepare_atoms` wraps the atoms itself for this flag)
    "plane": "yx" | "xz" | ...            the case geometry is given in the potential's frame; `frame_atoms` permutes it
                                          into the frame of the atoms the user would pass
    "origin": [ox, oy, oz], "box": True   passed through unchanged on both sides of a relation (box = the cell itself)
"""
from __future__ import annotations

import numpy as np

PLANES = ["yx", "xz", "zx", "yz", "zy"]


def gen(rng, projection, symbols, allow=("sigmas", "integrator", "periodic", "plane", "origin", "box"), p_default=0.45,
        cheap=False):
    """Random options; a pure function of rng.  cheap=True avoids the integral-table settings that cost the most."""
    opts = {}
    if rng.random() < p_default:
        return opts
    els = sorted(set(symbols))
    if "sigmas" in allow and rng.random() < 0.6:
        r = rng.random()
        if r < 0.5:
            chosen = els                                                   # every element broadened
        elif r < 0.85:
            chosen = [e for e in els if rng.random() < 0.5] or els[:1]    # some elements only
        else:
            chosen = els[:1] + ["H"]                                       # an element that is not present
        opts["sigmas"] = {e: float(rng.uniform(0.05, 0.35)) for e in chosen}
    if "integrator" in allow and rng.random() < 0.45:
        if projection == "finite":
            if rng.random() < 0.15 and "sigmas" not in opts:
                opts["integrator"] = {"type": "gaussian"}
            else:
                opts["integrator"] = {"type": "quadrature",
                                      "cutoff_tolerance": float(rng.choice([1e-3, 1e-4] if cheap else [1e-3, 1e-4, 1e-5])),
                                      "taper": float(rng.uniform(0.6, 0.95)),
                                      "integration_step": float(rng.choice([0.03, 0.05] if cheap else [0.01, 0.02, 0.05])),
                                      "quad_order": int(rng.choice([4, 8, 12])),
                                      "inner_cutoff_factor": float(rng.choice([1.5, 2.0, 3.0]))}
        else:
            opts["integrator"] = {"type": "scattering"}
    if "periodic" in allow and rng.random() < 0.2:
        opts["periodic"] = False
    if "plane" in allow and rng.random() < 0.25:
        opts["plane"] = str(rng.choice(PLANES))
    if "origin" in allow and rng.random() < 0.15:
        opts["origin"] = [float(rng.uniform(-1, 1)), float(rng.uniform(-1, 1)), float(rng.choice([0.0, 0.0, 0.3]))]
    if "box" in allow and rng.random() < 0.15:
        opts["box"] = True
    return opts


def single_precision(opts):
    """Options whose implementation computes in complex64 whatever the configured precision is."""
    return (opts or {}).get("integrator", {}).get("type") == "gaussian"


def parametrization(name, sigmas=None):
    from abtem.parametrizations import KirklandParametrization, LobatoParametrization, PengParametrization
    cls = {"lobato": LobatoParametrization, "kirkland": KirklandParametrization, "peng": PengParametrization}[name]
    return cls(sigmas=dict(sigmas)) if sigmas else cls()


def integrator(opts, projection, param_name, sigmas="opts"):
    """A new integrator object for the options (None when the options do not ask for one)."""
    from abtem.integrals import (GaussianProjectionIntegrals, QuadratureProjectionIntegrals,
                                 ScatteringFactorProjectionIntegrals)
    spec = (opts or {}).get("integrator")
    if spec is None:
        return None
    sig = (opts or {}).get("sigmas") if sigmas == "opts" else sigmas
    if spec["type"] == "gaussian":
        return GaussianProjectionIntegrals()
    par = parametrization(param_name, sig)
    if spec["type"] == "scattering":
        return ScatteringFactorProjectionIntegrals(par)
    kw = {k: v for k, v in spec.items() if k != "type"}
    return QuadratureProjectionIntegrals(parametrization=par, **kw)


def kwargs(opts, projection, param_name, sigmas="opts", cell=None):
    """Keyword arguments for abtem.Potential (without atoms / grid / slice thickness)."""
    opts = opts or {}
    sig = opts.get("sigmas") if sigmas == "opts" else sigmas
    out = {}
    integ = integrator(opts, projection, param_name, sigmas=sig)
    if integ is not None:
        out["integrator"] = integ
    else:
        out["projection"] = projection
        out["parametrization"] = parametrization(param_name, sig) if sig else param_name
    if opts.get("periodic") is False:
        out["periodic"] = False
    if opts.get("plane"):
        out["plane"] = opts["plane"]
    if opts.get("origin"):
        out["origin"] = tuple(opts["origin"])
    if opts.get("box") and cell is not None:
        out["box"] = tuple(float(c) for c in cell)
    return out


def plane_axes(plane):
    m = {"x": 0, "y": 1, "z": 2}
    a = [m[c] for c in (plane or "xy")]
    return a + [({0, 1, 2} - set(a)).pop()]


def frame_atoms(atoms, opts):
    """`atoms` are given in the potential's frame (x, y lateral, z beam); returns the Atoms a user passes together with
    plane=opts["plane"] so that abTEM's axis permutation maps them back to that frame."""
    from ase import Atoms
    plane = (opts or {}).get("plane")
    if not plane or plane == "xy":
        return atoms
    axes = plane_axes(plane)
    pos = np.zeros_like(atoms.positions)
    cell = np.zeros(3)
    lengths = atoms.cell.lengths()
    for k, a in enumerate(axes):
        pos[:, a] = atoms.positions[:, k]
        cell[a] = lengths[k]
    out = Atoms(symbols=atoms.get_chemical_symbols(), positions=pos, cell=cell, pbc=True)
    out.set_tags(atoms.get_tags())
    return out


def prepare_atoms(atoms, opts):
    """Frame permutation and, for periodic=False, the wrap a user of a non-periodic potential does himself."""
    if (opts or {}).get("periodic") is False:
        atoms = atoms.copy()
        lengths = atoms.cell.lengths()
        pos = np.mod(atoms.positions, lengths)
        # np.mod of a tiny negative number returns the modulus itself, or a value one ulp below it whose fractional
        # coordinate still rounds to 1.0: a non-periodic potential legitimately crops such an atom (half-open cell), so
        # the wrap done here on the user's side must leave every fractional coordinate strictly below 1
        pos[pos >= lengths] = 0.0
        atoms.positions[:] = pos
        # (the fractional coordinate as abTEM's crop computes it: ase solves positions = scaled @ cell)
        scaled = atoms.get_scaled_positions(wrap=False)
        pos[scaled >= 1.0] = 0.0
        atoms.positions[:] = pos
    return frame_atoms(atoms, opts)


def user_cell(atoms_in_potential_frame, opts):
    """Cell diagonal of the atoms that are passed to abTEM (for the pass-through `box`)."""
    return frame_atoms(atoms_in_potential_frame, opts).cell.lengths()
