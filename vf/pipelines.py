"""Random simulation pipelines (shared by C01 and C38).

A pipeline is a JSON-able description; `run(desc, lazy, max_batch)` builds it with
the real abTEM API and returns the (possibly lazy) result object or list.
"""
from __future__ import annotations

import numpy as np

from vf import gen as G


def gen_pipeline(rng, allow_ctf=True, allow_dists=True, allow_prism=False, small=False):
    cell = G.rand_cell_case(rng, max_atoms=4, max_xy=6.5, max_z=5.0, min_xy=3.5, min_z=2.0)
    builder = str(rng.choice(["probe", "probe", "plane"]))
    hi = 24 if small else 36
    d = {
        "builder": builder,
        "cell": cell,
        "gpts": G.rand_gpts(rng, 14, hi),
        "energy": float(rng.choice([60e3, 80e3, 100e3, 200e3, 300e3])),
        "slice_thickness": float(rng.uniform(0.6, 2.0)),
        "projection": str(rng.choice(["infinite", "infinite", "infinite", "finite"])),
    }
    pk = str(rng.choice(["atoms", "frozen", "frozen", "md", "crystal", "array"]))
    pot = {"kind": pk}
    if pk in ("frozen", "crystal"):
        pot.update(num_configs=int(rng.integers(1, 4)), sigma=float(rng.uniform(0.03, 0.15)),
                   seed=int(rng.integers(0, 10 ** 6)), ensemble_mean=bool(rng.random() < 0.5))
    if pk == "md":
        pot.update(num_configs=int(rng.integers(1, 4)), sigma=float(rng.uniform(0.03, 0.15)),
                   seed=int(rng.integers(0, 10 ** 6)), ensemble_mean=bool(rng.random() < 0.5))
    if pk == "crystal":
        pot.update(reps=[int(rng.integers(1, 3)), int(rng.integers(1, 3)), int(rng.integers(1, 3))],
                   unit_frozen=bool(rng.random() < 0.6),
                   num_frozen=int(rng.integers(1, 4)) if rng.random() < 0.7 else None)
        if pot["unit_frozen"] and pot["num_frozen"] is None:
            # without seeds CrystalPotential draws unit configurations from an unseeded generator:
            # two runs are then not comparable, so the workload always seeds it
            pot["num_frozen"] = int(rng.integers(1, 4))
        d["projection"] = "infinite"
        d["gpts"] = G.rand_gpts(rng, 10, 18)
    d["potential"] = pot
    r = rng.random()
    d["exit_planes"] = None if r < 0.45 else (int(rng.integers(1, 4)) if r < 0.85 else "tuple")
    # detectors
    ndet = int(rng.choice([1, 1, 1, 2, 3]))
    dets = []
    for _ in range(ndet):
        t = str(rng.choice(["waves", "annular", "flexible", "segmented", "pixelated"]))
        spec = {"type": t}
        if t == "annular":
            a, b = sorted(rng.uniform(0.05, 0.95, size=2).tolist())
            spec.update(inner=a, outer=max(b, a + 0.1) if rng.random() < 0.8 else None)
        elif t == "flexible":
            spec.update(step=float(rng.uniform(0.08, 0.3)))
        elif t == "segmented":
            spec.update(nr=int(rng.integers(1, 4)), na=int(rng.integers(1, 5)), inner=float(rng.uniform(0.0, 0.3)),
                        outer=float(rng.uniform(0.5, 0.95)), rotation=float(rng.uniform(0, 1)))
        elif t == "pixelated":
            spec.update(max_angle=str(rng.choice(["valid", "cutoff", "frac"])), frac=float(rng.uniform(0.3, 0.9)))
        dets.append(spec)
    if ndet == 1 and rng.random() < 0.15:
        dets = None          # default detector
    d["detectors"] = dets
    # scan
    if builder == "probe":
        sk = str(rng.choice(["none", "custom", "line", "grid", "grid"]))
        scan = {"kind": sk}
        if sk == "custom":
            scan["positions"] = rng.random((int(rng.integers(1, 6)), 2)).round(4).tolist()
        elif sk == "line":
            scan.update(start=rng.random(2).round(4).tolist(), end=rng.random(2).round(4).tolist(),
                        gpts=int(rng.integers(2, 7)), endpoint=bool(rng.random() < 0.5))
        elif sk == "grid":
            g = [int(rng.integers(1, 5)), int(rng.integers(1, 5))]
            # a one-point scan with endpoint=True has no consistent end point (degenerate grid, see C17 known
            # finding); it is outside the domain of this workload
            scan.update(gpts=g, endpoint=bool(rng.random() < 0.3 and min(g) > 1),
                        start=[0.0, 0.0] if rng.random() < 0.5 else rng.uniform(0, 0.4, 2).round(4).tolist(),
                        end=[1.0, 1.0] if rng.random() < 0.5 else rng.uniform(0.5, 1.0, 2).round(4).tolist())
        d["scan"] = scan
        d["semiangle"] = float(rng.uniform(8, 30))
        ab = {}
        if rng.random() < 0.7:
            ab["defocus"] = float(rng.uniform(-200, 200))
        if rng.random() < 0.4:
            ab["Cs"] = float(rng.uniform(-1e5, 1e5))
        if rng.random() < 0.3:
            ab["astigmatism"] = float(rng.uniform(0, 50))
            ab["astigmatism_angle"] = float(rng.uniform(0, 3))
        d["aberrations"] = ab
        if allow_dists and rng.random() < 0.25:
            d["defocus_dist"] = {"lo": float(rng.uniform(-100, 0)), "hi": float(rng.uniform(0, 100)),
                                 "n": int(rng.integers(2, 6)), "mean": bool(rng.random() < 0.3),
                                 "form": str(rng.choice(["uniform", "uniform", "gaussian", "weighted"])),
                                 "wseed": int(rng.integers(0, 10 ** 6))}
        if allow_dists and rng.random() < 0.2:
            d["tilt_dist"] = {"lo": float(rng.uniform(-10, 0)), "hi": float(rng.uniform(0, 10)),
                              "n": int(rng.integers(2, 4)), "axis": str(rng.choice(["x", "y"]))}
        else:
            d["tilt"] = [0.0, 0.0] if rng.random() < 0.7 else rng.uniform(-10, 10, 2).round(3).tolist()
    else:
        d["normalize"] = bool(rng.random() < 0.5)
        d["tilt"] = [0.0, 0.0] if rng.random() < 0.7 else rng.uniform(-10, 10, 2).round(3).tolist()
        r = rng.random()
        if allow_dists and r < 0.3:
            # plane-wave tilt ensembles: one axis, both axes (two ensemble axes on the waves), or N x 2 pairs
            form = str(rng.choice(["x", "y", "xy", "xy", "pairs"]))
            td = {"form": form, "x": rng.uniform(-8, 8, int(rng.integers(2, 4))).round(3).tolist(),
                  "y": rng.uniform(-8, 8, int(rng.integers(2, 4))).round(3).tolist()}
            if form == "pairs":
                td["y"] = rng.uniform(-8, 8, len(td["x"])).round(3).tolist()
            d["pw_tilt_dist"] = td
        if allow_ctf and rng.random() < 0.5:
            ctf = {"defocus": float(rng.uniform(-300, 300)), "Cs": float(rng.uniform(-1e5, 1e5)),
                   "semiangle": float(rng.uniform(10, 40)), "focal_spread": float(rng.choice([0.0, rng.uniform(0, 50)]))}
            if allow_dists and rng.random() < 0.6:
                # uniform (unit weights), gaussian (quadrature weights, optionally averaged) or user-weighted values
                ctf["defocus_dist"] = {"lo": -100.0, "hi": 100.0, "n": int(rng.integers(2, 8)),
                                       "form": str(rng.choice(["uniform", "gaussian", "gaussian", "weighted"])),
                                       "mean": bool(rng.random() < 0.3), "wseed": int(rng.integers(0, 10 ** 6))}
            d["ctf"] = ctf
            d["detectors"] = [{"type": "waves"}]
    return d


# --------------------------------------------------------------------------- building
def _potential(d):
    import abtem
    atoms = G.atoms_from(d["cell"])
    p = d["potential"]
    gpts = tuple(d["gpts"])
    st = d["slice_thickness"]
    kw = dict(gpts=gpts, slice_thickness=st, projection=d["projection"])
    ep = d["exit_planes"]

    def nslices(unit_slices, reps=1):
        return unit_slices * reps

    def resolve_ep(n):
        if ep == "tuple":
            # deterministic explicit tuple derived from the slice count
            planes = sorted({0, n // 2, n - 1})
            return tuple(planes)
        if isinstance(ep, int):
            return ep
        return None

    kind = p["kind"]
    if kind == "atoms":
        n = len(abtem.Potential(atoms, **kw))
        return abtem.Potential(atoms, exit_planes=resolve_ep(n), **kw)
    if kind == "frozen":
        fp = abtem.FrozenPhonons(atoms, num_configs=p["num_configs"], sigmas=p["sigma"], seed=p["seed"],
                                 ensemble_mean=p["ensemble_mean"])
        n = len(abtem.Potential(atoms, **kw))
        return abtem.Potential(fp, exit_planes=resolve_ep(n), **kw)
    if kind == "md":
        rng = np.random.default_rng(p["seed"])
        traj = []
        for _ in range(p["num_configs"]):
            a = atoms.copy()
            a.positions += rng.normal(scale=p["sigma"], size=a.positions.shape)
            traj.append(a)
        ens = abtem.AtomsEnsemble(traj, ensemble_mean=p["ensemble_mean"])
        n = len(abtem.Potential(atoms, **kw))
        return abtem.Potential(ens, exit_planes=resolve_ep(n), **kw)
    if kind == "crystal":
        if p["unit_frozen"]:
            unit_atoms = abtem.FrozenPhonons(atoms, num_configs=p["num_configs"], sigmas=p["sigma"], seed=p["seed"])
        else:
            unit_atoms = atoms
        unit = abtem.Potential(unit_atoms, **kw)
        n = len(unit) * p["reps"][2]
        e = resolve_ep(n)
        if isinstance(e, tuple):
            e = 1
        return abtem.CrystalPotential(unit, repetitions=tuple(p["reps"]), num_frozen_phonons=p["num_frozen"],
                                      exit_planes=e, seeds=p["seed"] if p["num_frozen"] else None,
                                      ensemble_mean=p["ensemble_mean"])
    if kind == "array":
        pa = abtem.Potential(atoms, **kw).build(lazy=False)
        return abtem.PotentialArray(pa.array, slice_thickness=pa.slice_thickness, sampling=pa.sampling,
                                    exit_planes=resolve_ep(len(pa)))
    raise ValueError(kind)


def _detectors(d, builder):
    import abtem
    if d["detectors"] is None:
        return None
    amax = 0.98 * min(builder.cutoff_angles)
    out = []
    for s in d["detectors"]:
        t = s["type"]
        if t == "waves":
            out.append(abtem.WavesDetector())
        elif t == "annular":
            out.append(abtem.AnnularDetector(inner=s["inner"] * amax, outer=None if s["outer"] is None else s["outer"] * amax))
        elif t == "flexible":
            out.append(abtem.FlexibleAnnularDetector(step_size=s["step"] * amax))
        elif t == "segmented":
            out.append(abtem.SegmentedDetector(nbins_radial=s["nr"], nbins_azimuthal=s["na"], inner=s["inner"] * amax,
                                               outer=s["outer"] * amax, rotation=s["rotation"]))
        elif t == "pixelated":
            ma = s["max_angle"]
            out.append(abtem.PixelatedDetector(max_angle=ma if ma != "frac" else s["frac"] * amax))
    return out if len(out) > 1 else out[0]


def _scan(d, potential):
    import abtem
    s = d.get("scan", {"kind": "none"})
    ext = np.array(potential.extent)
    k = s["kind"]
    if k == "none":
        return None
    if k == "custom":
        return abtem.CustomScan(np.array(s["positions"]) * ext)
    if k == "line":
        return abtem.LineScan(start=tuple(np.array(s["start"]) * ext), end=tuple(np.array(s["end"]) * ext),
                              gpts=s["gpts"], endpoint=s["endpoint"])
    return abtem.GridScan(start=tuple(np.array(s["start"]) * ext), end=tuple(np.array(s["end"]) * ext),
                          gpts=tuple(s["gpts"]), endpoint=s["endpoint"])


def make_dist(dd, center=0.0):
    """uniform / gaussian / user-weighted distribution from its JSON description."""
    import abtem
    form = dd.get("form", "uniform")
    lo, hi, n = center + dd["lo"], center + dd["hi"], dd["n"]
    mean = dd.get("mean", False)
    if form == "gaussian":
        return abtem.distributions.gaussian(standard_deviation=(hi - lo) / 4.0, num_samples=n, center=0.5 * (lo + hi),
                                            ensemble_mean=mean)
    if form == "weighted":
        r = np.random.default_rng(dd.get("wseed", 0))
        return abtem.distributions.from_values(np.linspace(lo, hi, n), weights=r.uniform(0.2, 1.0, n), ensemble_mean=mean)
    return abtem.distributions.uniform(lo, hi, n, ensemble_mean=mean)


def run(d, lazy, max_batch="auto"):
    """Build and run the pipeline.  Returns the abTEM result (lazy objects not yet computed)."""
    import abtem
    pot = _potential(d)
    if d["builder"] == "probe":
        ab = dict(d.get("aberrations", {}))
        if "defocus_dist" in d:
            ab["defocus"] = make_dist(d["defocus_dist"])
        if "tilt_dist" in d:
            td = d["tilt_dist"]
            dist = abtem.distributions.uniform(td["lo"], td["hi"], td["n"])
            tilt = (dist, 0.0) if td["axis"] == "x" else (0.0, dist)
        else:
            tilt = tuple(d["tilt"])
        probe = abtem.Probe(energy=d["energy"], semiangle_cutoff=d["semiangle"], tilt=tilt, **ab)
        probe.grid.match(pot)
        det = _detectors(d, probe)
        scan = _scan(d, pot)
        if scan is None:
            return probe.multislice(pot, detectors=det, lazy=lazy, max_batch=max_batch)
        return probe.scan(pot, scan=scan, detectors=det, lazy=lazy, max_batch=max_batch)
    tilt = tuple(d["tilt"])
    if "pw_tilt_dist" in d:
        td = d["pw_tilt_dist"]
        fx = abtem.distributions.from_values(np.array(td["x"]))
        fy = abtem.distributions.from_values(np.array(td["y"]))
        if td["form"] == "x":
            tilt = (fx, tilt[1])
        elif td["form"] == "y":
            tilt = (tilt[0], fy)
        elif td["form"] == "xy":
            tilt = (fx, fy)
        else:
            tilt = np.array([td["x"], td["y"]]).T
    pw = abtem.PlaneWave(energy=d["energy"], normalize=d["normalize"], tilt=tilt)
    pw.grid.match(pot)
    det = _detectors(d, pw)
    out = pw.multislice(pot, detectors=det, lazy=lazy, max_batch=max_batch)
    if "ctf" in d:
        c = d["ctf"]
        defocus = c["defocus"]
        if "defocus_dist" in c:
            defocus = make_dist(c["defocus_dist"], center=c["defocus"])
        out = out.apply_ctf(defocus=defocus, Cs=c["Cs"], semiangle_cutoff=c["semiangle"], focal_spread=c["focal_spread"],
                            max_batch=max_batch)
        out = out.intensity()
    return out


def compute(obj, **kw):
    """Compute a lazy result (object or list) with the given dask kwargs; eager objects pass through."""
    if isinstance(obj, list):
        if hasattr(obj, "compute"):
            return list(obj.compute(progress_bar=False, **kw))
        return obj
    return obj.compute(progress_bar=False, **kw)


def is_nontrivial(d):
    """>=2 slices guaranteed by generator; non-trivial = some ensemble/scan/exit-plane structure to partition."""
    p = d["potential"]
    multi = p.get("num_configs", 1) > 1 or (p["kind"] == "crystal" and (p.get("num_frozen") or 1) > 1)
    scan = d.get("scan", {}).get("kind", "none") != "none"
    return bool(multi or scan or d["exit_planes"] is not None or "defocus_dist" in d or "tilt_dist" in d or "ctf" in d
                or "pw_tilt_dist" in d)
