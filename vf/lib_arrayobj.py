"""Generators for abTEM array objects with arbitrary ensemble axes (shared by C29 and C30).

A JSON *object description* is turned into a real abTEM array object and into a shadow
(numpy array in the object's dtype + list of per-axis shadow entries).  The array itself is
never stored in the case: it is regenerated from `seed`.
"""
from __future__ import annotations

import numpy as np

KINDS = ["Waves", "Images", "DiffractionPatterns", "PolarMeasurements", "RealSpaceLineProfiles",
         "ReciprocalSpaceLineProfiles", "MeasurementsEnsemble", "PotentialArray"]
BASE_DIMS = {"Waves": 2, "Images": 2, "DiffractionPatterns": 2, "PolarMeasurements": 2, "RealSpaceLineProfiles": 1,
             "ReciprocalSpaceLineProfiles": 1, "MeasurementsEnsemble": 0, "PotentialArray": 3}

ORDINAL = ["OrdinalAxis", "NonLinearAxis", "AxisAlignedTiltAxis", "WaveVectorAxis", "TiltAxis", "ThicknessAxis",
           "ParameterAxis", "PositionsAxis"]
LINEAR = ["LinearAxis", "RealSpaceAxis", "ReciprocalSpaceAxis", "ScanAxis"]
PLAIN = ["UnknownAxis", "SampleAxis", "FrozenPhononsAxis", "PrismPlaneWavesAxis", "AxisMetadata"]
ALL_AXES = ORDINAL + LINEAR + PLAIN

_LABELS = ["a", "defocus", "C30", "x", "tilt", "thickness", "run", "q", "", "energy spread"]
_UNITS = ["Å", "mrad", "1/Å", "eV", "", None, "nm"]


def _f(rng, lo=-50.0, hi=50.0):
    """A float that float64 JSON carries exactly (it is one)."""
    return float(np.round(rng.uniform(lo, hi), int(rng.integers(0, 7))))


def rand_values(rng, cls, n):
    """n distinct ordinal values suited to the axis class (JSON lists; pairs become tuples on build)."""
    if cls in ("TiltAxis", "PositionsAxis", "WaveVectorAxis"):
        vals = []
        for i in range(n):
            vals.append([_f(rng) + 101.0 * i, _f(rng)])
        return vals
    if cls == "OrdinalAxis" and rng.random() < 0.35:
        return ["item%d_%s" % (i, "abcxyz"[int(rng.integers(0, 6))]) for i in range(n)]
    if cls in ("OrdinalAxis", "ParameterAxis") and rng.random() < 0.3:
        base = int(rng.integers(-5, 5))
        step = int(rng.integers(1, 4))
        return [base + step * i for i in range(n)]
    start = _f(rng)
    steps = np.cumsum(np.round(rng.uniform(0.25, 3.0, size=n), 3))
    return [float(np.round(start + s, 6)) for s in steps]


def rand_axis(rng, n, classes=None, full_fields=False):
    """Random JSON description of one ensemble axis of length n."""
    cls = str(rng.choice(classes or ALL_AXES))
    d = {"cls": cls}
    if rng.random() < 0.8 or cls in ORDINAL:
        d["label"] = str(rng.choice(_LABELS)) + ("" if rng.random() < 0.5 else str(int(rng.integers(0, 9))))
    if rng.random() < 0.5:
        u = _UNITS[int(rng.integers(0, len(_UNITS)))]
        if u is not None or cls not in LINEAR:
            d["units"] = u
    if full_fields:
        if rng.random() < 0.4:
            d["tex_label"] = "$\\alpha_{%d}$" % int(rng.integers(0, 9))
        if rng.random() < 0.3:
            d["tex_units"] = "$\\mathrm{\\AA}$"
        if rng.random() < 0.3:
            d["_ensemble_mean"] = bool(rng.random() < 0.5)
        if rng.random() < 0.3:
            d["_squeeze"] = bool(rng.random() < 0.5)
        if rng.random() < 0.3:
            d["_concatenate"] = bool(rng.random() < 0.5)
        if rng.random() < 0.2:
            d["_default_type"] = str(rng.choice(["index", "range", "overlay"]))
    if cls in ORDINAL:
        d["values"] = rand_values(rng, cls, n)
        if cls == "AxisAlignedTiltAxis":
            d["direction"] = str(rng.choice(["x", "y"]))
    elif cls in LINEAR:
        d["sampling"] = float(np.round(rng.uniform(0.01, 3.0), 5))
        if rng.random() < 0.6:
            d["offset"] = _f(rng, -10, 10)
        if cls in ("RealSpaceAxis", "ScanAxis") and rng.random() < 0.6:
            d["endpoint"] = bool(rng.random() < 0.5)
        if cls == "ReciprocalSpaceAxis" and rng.random() < 0.7:
            d["fftshift"] = bool(rng.random() < 0.5)
        if cls == "ScanAxis" and rng.random() < 0.4:
            d["_main"] = bool(rng.random() < 0.5)
    return d


def _tup(v):
    return tuple(_tup(x) for x in v) if isinstance(v, list) else v


def build_axis(d):
    from abtem.core import axes as ax
    kw = {k: v for k, v in d.items() if k != "cls"}
    if "values" in kw:
        kw["values"] = tuple(_tup(v) for v in kw["values"])
    return getattr(ax, d["cls"])(**kw)


def shadow_axis(d):
    """Shadow entry of one ensemble axis: (class name, label, value tuple or None)."""
    from abtem.core import axes as ax
    label = d.get("label", getattr(ax, d["cls"])().label)
    vals = tuple(_tup(v) for v in d["values"]) if "values" in d else None
    return (d["cls"], label, vals)


def shadow_of(obj):
    """Shadow entries read back from a real object's axes (class, label, values|None) for every dimension."""
    out = []
    for a in obj.axes_metadata:
        out.append((type(a).__name__, a.label, tuple(a.values) if hasattr(a, "values") else None))
    return out


def rand_object(rng, kind=None, max_ens=3, max_len=5, dtypes=None, classes=None, full_fields=False, min_ens=0,
                base_lo=2, base_hi=7, size1=0.25):
    """JSON description of an array object."""
    kind = kind or str(rng.choice(KINDS))
    if kind == "MeasurementsEnsemble":
        min_ens, max_ens = max(min_ens, 1), max(max_ens, 1)     # a 0-d ensemble is not an array object
    nens = int(rng.integers(min_ens, max_ens + 1))
    ens_shape = [1 if rng.random() < size1 else int(rng.integers(2, max_len + 1)) for _ in range(nens)]
    bd = BASE_DIMS[kind]
    base = [int(rng.integers(base_lo, base_hi + 1)) for _ in range(bd)]
    if kind == "PotentialArray":
        base[0] = int(rng.integers(1, 5))
    if dtypes is None:
        dtypes = ["complex64", "complex128"] if kind == "Waves" else ["float32", "float64", "complex64", "complex128"]
    d = {"kind": kind, "ens_shape": ens_shape, "base_shape": base, "dtype": str(rng.choice(dtypes)),
         "axes": [rand_axis(rng, n, classes, full_fields) for n in ens_shape],
         "seed": int(rng.integers(0, 2 ** 31)), "metadata": {}}
    p = {}
    if kind == "Waves":
        p = {"energy": float(np.round(rng.uniform(20e3, 300e3), 1)),
             "sampling": [float(np.round(rng.uniform(0.02, 0.5), 5)), float(np.round(rng.uniform(0.02, 0.5), 5))],
             "reciprocal_space": bool(rng.random() < 0.3)}
    elif kind in ("Images",):
        p = {"sampling": [float(np.round(rng.uniform(0.02, 0.5), 5)), float(np.round(rng.uniform(0.02, 0.5), 5))]}
    elif kind == "DiffractionPatterns":
        p = {"sampling": [float(np.round(rng.uniform(0.005, 0.2), 6)), float(np.round(rng.uniform(0.005, 0.2), 6))],
             "fftshift": bool(rng.random() < 0.5)}
    elif kind == "PolarMeasurements":
        p = {"radial_sampling": float(np.round(rng.uniform(0.5, 20), 4)),
             "azimuthal_sampling": float(np.round(rng.uniform(0.05, 3.0), 5)),
             "radial_offset": float(np.round(rng.uniform(0, 30), 3)),
             "azimuthal_offset": float(np.round(rng.uniform(-3, 3), 4))}
    elif kind in ("RealSpaceLineProfiles", "ReciprocalSpaceLineProfiles"):
        p = {"sampling": float(np.round(rng.uniform(0.01, 0.5), 5))}
    elif kind == "PotentialArray":
        st = [float(np.round(rng.uniform(0.3, 2.5), 4)) for _ in range(base[0])]
        p = {"slice_thickness": st,
             "sampling": [float(np.round(rng.uniform(0.02, 0.5), 5)), float(np.round(rng.uniform(0.02, 0.5), 5))]}
        d["dtype"] = str(rng.choice(["float32", "float64"]))
    d["params"] = p
    return d


def rand_metadata(rng, depth=0):
    """Nested metadata that JSON can carry (tuples are encoded as {'t': [...]})."""
    def leaf():
        k = int(rng.integers(0, 9))
        if k == 0:
            return None
        if k == 1:
            return bool(rng.random() < 0.5)
        if k == 2:
            return int(rng.integers(-1000, 1000))
        if k == 3:
            return _f(rng)
        if k == 4:
            return str(rng.choice(["", "abc", "Å⁻¹", "label with spaces", "_type"]))
        if k == 5:
            return {"np": str(rng.choice(["float32", "float64", "int64", "int32", "bool_"])), "v": int(rng.integers(-99, 99))}
        if k == 6:
            return {"nd": [int(v) for v in rng.integers(-9, 9, size=int(rng.integers(0, 4)))],
                    "dt": str(rng.choice(["float64", "int64", "float32"]))}
        if k == 7:
            return 1e-30 * _f(rng)
        return float(rng.integers(-5, 5))

    def node(dep):
        r = rng.random()
        if dep >= 3 or r < 0.5:
            return leaf()
        n = int(rng.integers(0, 4))
        if r < 0.68:
            return {"t": [node(dep + 1) for _ in range(n)]}
        if r < 0.84:
            return {"l": [node(dep + 1) for _ in range(n)]}
        return {"d": {"k%d" % i: node(dep + 1) for i in range(n)}}
    return {"key%d" % i: node(depth) for i in range(int(rng.integers(0, 5)))}


def build_metadata(m):
    """Decode rand_metadata's JSON into the python structure (tuples, numpy scalars, arrays)."""
    if isinstance(m, dict):
        if set(m) == {"t"}:
            return tuple(build_metadata(v) for v in m["t"])
        if set(m) == {"l"}:
            return [build_metadata(v) for v in m["l"]]
        if set(m) == {"d"}:
            return {k: build_metadata(v) for k, v in m["d"].items()}
        if set(m) == {"np", "v"}:
            return getattr(np, m["np"])(m["v"])
        if set(m) == {"nd", "dt"}:
            return np.array(m["nd"], dtype=m["dt"])
        return {k: build_metadata(v) for k, v in m.items()}
    return m


def make_array(desc):
    rng = np.random.default_rng(desc["seed"])
    shape = tuple(desc["ens_shape"]) + tuple(desc["base_shape"])
    dt = np.dtype(desc["dtype"])
    # values bounded away from zero (division/power in the arithmetic workload), signs mixed
    a = rng.uniform(0.5, 2.0, size=shape) * rng.choice([-1.0, 1.0], size=shape)
    if dt.kind == "c":
        a = a * np.exp(1j * rng.uniform(-np.pi, np.pi, size=shape))
    return np.array(a.astype(dt), order="C", copy=True).reshape(shape)


def build_object(desc, lazy=False, chunks=None, array=None):
    """Real abTEM object for a description.  chunks: per-ensemble-axis chunk size list (lazy only)."""
    import abtem
    import dask.array as da
    from abtem.potentials.iam import PotentialArray
    arr = make_array(desc) if array is None else array
    if lazy:
        nens = len(desc["ens_shape"])
        if chunks is None:
            chunks = [1] * nens
        ch = tuple(int(c) for c in chunks) + (-1,) * len(desc["base_shape"])
        arr = da.from_array(arr, chunks=ch)
    axes = [build_axis(d) for d in desc["axes"]]
    md = build_metadata(desc.get("metadata", {}))
    kind = desc["kind"]
    p = dict(desc["params"])
    for k in ("sampling",):
        if isinstance(p.get(k), list):
            p[k] = tuple(p[k])
    if kind == "PotentialArray":
        p["slice_thickness"] = tuple(p["slice_thickness"])
        return PotentialArray(arr, ensemble_axes_metadata=axes, metadata=md, **p)
    if kind in ("RealSpaceLineProfiles", "ReciprocalSpaceLineProfiles", "MeasurementsEnsemble"):
        cls = getattr(abtem.measurements, kind)
    else:
        cls = getattr(abtem, kind)
    return cls(arr, ensemble_axes_metadata=axes, metadata=md, **p)
