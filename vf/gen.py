"""Seeded generators and comparison helpers shared by the property checks.

Everything here turns a JSON-able *case description* into real abTEM objects, so
that a case stored in a replay file can be rebuilt exactly.
"""
from __future__ import annotations

import contextlib

import numpy as np

ELEMENTS = ["C", "Si", "O", "Au", "Ti", "Sr", "N", "Cu", "Al", "Mo", "S"]


# --------------------------------------------------------------------------- atoms
def rand_cell_case(rng, max_atoms=6, max_xy=8.0, max_z=8.0, min_xy=3.0, min_z=1.5, elements=None):
    """JSON description of an orthogonal cell with random atoms."""
    n = int(rng.integers(1, max_atoms + 1))
    cell = [float(rng.uniform(min_xy, max_xy)), float(rng.uniform(min_xy, max_xy)), float(rng.uniform(min_z, max_z))]
    els = elements or ELEMENTS
    symbols = [str(rng.choice(els)) for _ in range(n)]
    pos = (rng.random((n, 3)) * np.array(cell)).round(6).tolist()
    return {"cell": cell, "symbols": symbols, "positions": pos}


def atoms_from(desc):
    from ase import Atoms
    return Atoms(symbols=desc["symbols"], positions=np.array(desc["positions"], dtype=float).reshape(-1, 3),
                 cell=desc["cell"], pbc=True)


def rand_gpts(rng, lo=12, hi=40, square=None):
    if square is None:
        square = rng.random() < 0.3
    a = int(rng.integers(lo, hi + 1))
    return [a, a] if square else [a, int(rng.integers(lo, hi + 1))]


# --------------------------------------------------------------------------- array-object comparison
def axes_dicts(obj):
    """Axis metadata of an array object as comparable python structures."""
    from abtem.core.axes import axis_to_dict
    out = []
    for a in obj.axes_metadata:
        d = axis_to_dict(a)
        out.append(norm(d))
    return out


def norm(x):
    """Normalise numpy scalars/arrays/tuples for equality comparison of metadata."""
    if isinstance(x, dict):
        return {k: norm(v) for k, v in x.items() if k not in ("_tex_label",)}
    if isinstance(x, (list, tuple)):
        return [norm(v) for v in x]
    if isinstance(x, np.ndarray):
        return norm(x.tolist())
    if isinstance(x, np.generic):
        return norm(x.item())
    if isinstance(x, float):
        return float(np.float32(x)) if abs(x) < 1e30 else x
    return x


def approx_struct(a, b, rtol=1e-5, atol=1e-7):
    if isinstance(a, dict) and isinstance(b, dict):
        return a.keys() == b.keys() and all(approx_struct(a[k], b[k], rtol, atol) for k in a)
    if isinstance(a, list) and isinstance(b, list):
        return len(a) == len(b) and all(approx_struct(x, y, rtol, atol) for x, y in zip(a, b))
    if isinstance(a, bool) or isinstance(b, bool):
        return a == b
    if isinstance(a, (int, float)) and isinstance(b, (int, float)):
        if a != a and b != b:
            return True
        return abs(a - b) <= atol + rtol * max(abs(a), abs(b))
    return a == b


def to_numpy(obj):
    arr = obj.array
    if hasattr(arr, "compute"):
        arr = arr.compute()
    return np.asarray(arr)


def compare_objects(ctx, got, want, clause, rtol=2e-5, atol_rel=2e-6, meta=True, **detail):
    """Compare two abTEM array objects (or lists of them): type, shape, axes metadata, values."""
    if isinstance(want, (list, tuple)) or isinstance(got, (list, tuple)):
        if not (isinstance(want, (list, tuple)) and isinstance(got, (list, tuple)) and len(got) == len(want)):
            ctx.expect(False, clause + ":type", got=type(got).__name__, want=type(want).__name__, **detail)
            return False
        ok = True
        for i, (g, w) in enumerate(zip(got, want)):
            ok &= compare_objects(ctx, g, w, clause, rtol, atol_rel, meta, item=i, **detail)
        return ok
    ok = ctx.expect(type(got) is type(want), clause + ":type", got=type(got).__name__, want=type(want).__name__, **detail)
    if not ok:
        return False
    g = to_numpy(got)
    w = to_numpy(want)
    if not ctx.expect(g.shape == w.shape, clause + ":shape", got=list(g.shape), want=list(w.shape), **detail):
        return False
    ok &= ctx.expect(g.dtype == w.dtype, clause + ":dtype", got=str(g.dtype), want=str(w.dtype), **detail)
    if meta:
        ga, wa = axes_dicts(got), axes_dicts(want)
        ok &= ctx.expect(approx_struct(ga, wa), clause + ":axes", got=ga, want=wa, **detail)
    scale = float(np.abs(w).max()) if w.size else 1.0
    ok &= ctx.close(g, w, clause + ":values", rtol=rtol, atol=atol_rel * scale + 1e-30, **detail)
    return ok


@contextlib.contextmanager
def precision(p):
    import abtem
    with abtem.config.set({"precision": p}):
        yield


# --------------------------------------------------------------------------- monitors
class HookMissing(Exception):
    """An internal observation point a monitor wants to wrap does not exist in the tree under test."""


class Wrapped:
    """Replace module/class attributes by wrappers for the duration of a `with` block."""

    def __init__(self):
        self._undo = []

    def patch(self, owner, name, make):
        try:
            orig = owner.__dict__[name] if isinstance(owner, type) else getattr(owner, name)
        except (KeyError, AttributeError):
            # the observation point does not exist (any more): the monitor cannot be installed.  That is
            # "inconclusive" (the harness reports it as such), never a violation of the property.
            raise HookMissing("%s.%s" % (getattr(owner, "__name__", owner), name))
        new = make(orig)
        setattr(owner, name, new)
        self._undo.append((owner, name, orig))
        return orig

    def __enter__(self):
        return self

    def __exit__(self, *exc):
        for owner, name, orig in reversed(self._undo):
            setattr(owner, name, orig)
        self._undo.clear()
        return False
