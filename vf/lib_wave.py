"""Float64 reference models and case helpers shared by the wave-propagation checks (C04, C05, C39).

Nothing in here calls abTEM's numerical code: constants are CODATA values typed in by hand, spatial
frequencies come from numpy.fft.fftfreq, the anti-alias zones are computed from the *configuration
values* `antialias.cutoff` / `antialias.taper` only (not from abTEM's aperture array).
"""
from __future__ import annotations

import numpy as np

# CODATA 2018
_H = 6.62607015e-34          # J s
_C = 299792458.0             # m / s
_E = 1.602176634e-19         # C
_ME = 9.1093837015e-31       # kg
_MC2_EV = _ME * _C ** 2 / _E  # electron rest energy [eV]


def wavelength(energy):
    """Relativistic de Broglie wavelength [Angstrom], energy in eV."""
    return _H * _C / np.sqrt(energy * (2.0 * _MC2_EV + energy)) / _E * 1e10


def sigma(energy):
    """Interaction parameter [rad / (V Angstrom)] (Kirkland eq. 5.6), energy in eV."""
    lam = wavelength(energy)
    return 2.0 * np.pi / (lam * energy) * (_MC2_EV + energy) / (2.0 * _MC2_EV + energy)


def kgrid(gpts, sampling):
    kx = np.fft.fftfreq(int(gpts[0]), float(sampling[0]))
    ky = np.fft.fftfreq(int(gpts[1]), float(sampling[1]))
    return kx[:, None], ky[None, :]


def kradius(gpts, sampling):
    kx, ky = kgrid(gpts, sampling)
    return np.sqrt(kx ** 2 + ky ** 2)


def aa_config():
    import abtem
    return float(abtem.config.get("antialias.cutoff")), float(abtem.config.get("antialias.taper"))


def aa_zones(gpts, sampling, margin=1e-5):
    """(flat, outside) boolean masks of the anti-alias aperture derived from the config values.

    flat    : |k| <  cutoff - taper - margin   -> the aperture must be exactly 1
    outside : |k| >  cutoff + margin           -> the aperture must be exactly 0
    Pixels within `margin` (relative to the cutoff radius) of a zone boundary belong to neither.
    """
    c, t = aa_config()
    smax = max(float(sampling[0]), float(sampling[1]))
    cutoff = c / smax / 2.0
    taper = t / smax
    r = kradius(gpts, sampling)
    eps = margin * cutoff
    return r < cutoff - taper - eps, r > cutoff + eps


def intensity(arr):
    """Sum |psi|^2 over the last two axes, accumulated in float64 (no large temporaries)."""
    a = np.asarray(arr)
    if not np.iscomplexobj(a):
        a = a.astype(np.complex128)
    if not a.flags.c_contiguous:
        a = np.ascontiguousarray(a)
    v = a.view(a.real.dtype).reshape(a.shape[:-2] + (-1,))
    return np.asarray(np.einsum("...k,...k->...", v, v, dtype=np.float64))


def bandlimited(rng, lead_shape, gpts, sampling, fill=1.0, shrink=1.0):
    """Random complex128 waves whose Fourier support lies strictly inside the flat zone of the
    anti-alias aperture (times `shrink`); `fill` is the fraction of admissible pixels used."""
    flat, _ = aa_zones(gpts, sampling, margin=1e-3)
    if shrink < 1.0:
        c, t = aa_config()
        smax = max(sampling)
        flat &= kradius(gpts, sampling) < shrink * (c / smax / 2.0 - t / smax)
    flat = flat.copy()
    flat[0, 0] = True
    if fill < 1.0:
        keep = rng.random(flat.shape) < fill
        keep[0, 0] = True
        flat &= keep
    shape = tuple(lead_shape) + tuple(gpts)
    spec = (rng.standard_normal(shape) + 1j * rng.standard_normal(shape)) * flat
    return np.fft.ifft2(spec), flat


def fourier_shift(arr, shift_px):
    """Shift the last two axes by (sx, sy) *pixels* (positive = towards larger index) with the shift theorem."""
    a = np.asarray(arr, dtype=np.complex128)
    n, m = a.shape[-2:]
    fx = np.fft.fftfreq(n)[:, None]
    fy = np.fft.fftfreq(m)[None, :]
    ph = np.exp(-2j * np.pi * (fx * shift_px[0] + fy * shift_px[1]))
    return np.fft.ifft2(np.fft.fft2(a) * ph)


def smooth_field(rng, gpts, corr=3.0):
    """Real random field with unit max-abs, correlation length ~`corr` pixels (corr=0 -> white noise)."""
    f = rng.standard_normal(tuple(gpts))
    if corr > 0:
        fx = np.fft.fftfreq(gpts[0])[:, None]
        fy = np.fft.fftfreq(gpts[1])[None, :]
        f = np.fft.ifft2(np.fft.fft2(f) * np.exp(-2 * (np.pi * corr) ** 2 * (fx ** 2 + fy ** 2))).real
    m = np.abs(f).max()
    return f / m if m > 0 else f


def member_arrays(obj):
    """numpy array of an abTEM array object (computing it when lazy)."""
    arr = obj.array
    if hasattr(arr, "compute"):
        arr = arr.compute()
    return np.asarray(arr)


# ------------------------------------------------------------------------------------------------ tilt specifications
def tilt_arg(spec):
    """abTEM `tilt=` argument for a JSON tilt spec: none | base (tx,ty) | axes (x values, y values or scalar) | pairs Nx2."""
    from abtem import distributions as D
    k = spec["kind"]
    if k == "none":
        return (0.0, 0.0)
    if k == "base":
        return tuple(spec["t"])
    if k == "axes":
        x = D.from_values(spec["x"]) if isinstance(spec["x"], list) else spec["x"]
        y = D.from_values(spec["y"]) if isinstance(spec["y"], list) else spec["y"]
        return (x, y)
    return np.array(spec["t"], dtype=float)


def tilt_members(spec):
    """float64 array tilt_shape + (2,) with the (tx, ty) [mrad] each ensemble member must experience."""
    k = spec["kind"]
    if k == "none":
        return np.zeros((2,))
    if k == "base":
        return np.array(spec["t"], dtype=float)
    if k == "pairs":
        return np.array(spec["t"], dtype=float).reshape(-1, 2)
    xs = spec["x"] if isinstance(spec["x"], list) else None
    ys = spec["y"] if isinstance(spec["y"], list) else None
    if xs is not None and ys is not None:
        out = np.zeros((len(xs), len(ys), 2))
        out[..., 0] = np.array(xs)[:, None]
        out[..., 1] = np.array(ys)[None, :]
        return out
    if xs is not None:
        return np.stack([np.array(xs, dtype=float), np.full(len(xs), float(spec["y"]))], axis=-1)
    if ys is not None:
        return np.stack([np.full(len(ys), float(spec["x"])), np.array(ys, dtype=float)], axis=-1)
    return np.array([float(spec["x"]), float(spec["y"])])


def tilted_waves(array_fn, gpts, sampling, energy, spec, lead=()):
    """Waves carrying exactly the tilt metadata / tilt axes abTEM attaches itself (taken from a built PlaneWave) and the
    array array_fn(tilt_shape + lead) -> complex array of shape tilt_shape + lead + gpts."""
    import abtem
    from abtem.core.axes import OrdinalAxis
    pw = abtem.PlaneWave(energy=energy, gpts=tuple(gpts), sampling=tuple(sampling), tilt=tilt_arg(spec)).build(lazy=False)
    lead_axes = [OrdinalAxis(values=tuple(range(n))) for n in lead]
    shape = tuple(pw.shape[:-2]) + tuple(lead)
    arr = np.asarray(array_fn(shape)).astype(pw.array.dtype)
    meta = {k: v for k, v in pw.metadata.items() if k.startswith("base_tilt")}
    return abtem.Waves(arr, energy=energy, sampling=tuple(sampling), metadata=meta,
                       ensemble_axes_metadata=list(pw.ensemble_axes_metadata) + lead_axes)
