#!/bin/bash
# Offline setup: contracts library beside the repository's interpreter (git-ignored .deps).
here="$(cd "$(dirname "$0")" && pwd)"
cd "$here"
mkdir -p .deps evidence replay
if [ ! -d .deps/icontract ]; then
  PIP_NO_INDEX=1 /venv/bin/pip install -q --no-index --find-links /opt/veriftools/wheels --target .deps icontract deal 2>&1 | tail -2
fi
/venv/bin/python -c "import abtem; print('abtem', abtem.__version__, abtem.__file__)"
exit 0
