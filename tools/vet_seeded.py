#!/usr/bin/env python3
"""Vet one blind seeded change: tools/vet_seeded.py <dir with patch.diff, demo.py, notes.md> [--tests] [--tier quick|thorough]

 1. scratch worktree of /repo HEAD (removed afterwards), apply patch
 2. demo.py must exit 0 on the pristine tree and non-zero with the patch
 3. (--tests) the pinned baseline must still pass with the patch
 4. run the property's check (and any extra checks given with --also) against the patched tree
 Writes <dir>/vet.json.
"""
import argparse, json, os, subprocess, sys, shutil, tempfile, xml.etree.ElementTree as ET
ap = argparse.ArgumentParser()
ap.add_argument("dir"); ap.add_argument("--tests", action="store_true"); ap.add_argument("--tier", default="quick")
ap.add_argument("--also", default=""); ap.add_argument("--no-checks", action="store_true")
a = ap.parse_args()
d = os.path.abspath(a.dir); sid = os.path.basename(d); pid = sid.split("-")[0]
wt = "/tmp/vet-" + sid
res = {"id": sid, "property": pid}
def run(cmd, env=None, cwd=None, timeout=3600):
    e = dict(os.environ); e.update(env or {})
    try:
        p = subprocess.run(cmd, shell=True, cwd=cwd, env=e, capture_output=True, text=True, timeout=timeout)
        return p.returncode, (p.stdout + p.stderr)[-3000:]
    except subprocess.TimeoutExpired:
        return 124, "timeout"
subprocess.run(f"git -C /repo worktree remove --force {wt}", shell=True, capture_output=True)
rc, out = run(f"git -C /repo worktree add --detach {wt} HEAD")
try:
    rc, out = run(f"git apply --3way {d}/patch.diff || git apply {d}/patch.diff", cwd=wt)
    res["applies"] = rc == 0
    if rc != 0:
        res["apply_error"] = out[-500:]
    else:
        rc0, o0 = run(f"/venv/bin/python {d}/demo.py", env={"PYTHONPATH": "/repo"}, cwd="/tmp", timeout=900)
        rc1, o1 = run(f"/venv/bin/python {d}/demo.py", env={"PYTHONPATH": wt}, cwd="/tmp", timeout=900)
        res["demo_pristine_rc"] = rc0; res["demo_patched_rc"] = rc1
        res["demo_ok"] = (rc0 == 0 and rc1 != 0)
        if rc0 != 0: res["demo_pristine_out"] = o0[-600:]
        if a.tests:
            base = json.load(open("/root/.vp/BASELINE.json"))
            xml = tempfile.mktemp(suffix=".xml", dir="/tmp")
            run(f"/venv/bin/python -m pytest -q -p no:cacheprovider --timeout=900 --continue-on-collection-errors -n 4 --junitxml={xml}",
                env={"PYTHONPATH": wt}, cwd=wt, timeout=3000)
            passed = set()
            try:
                for tc in ET.parse(xml).getroot().iter("testcase"):
                    if not any(ch.tag in ("failure", "error", "skipped") for ch in tc):
                        passed.add(tc.get("classname") + "::" + tc.get("name"))
                os.remove(xml)
            except Exception as e:
                res["tests_error"] = repr(e)
            missing = sorted(set(base["stable_pass"]) - passed)
            res["suite_regressions"] = missing[:10]; res["suite_ok"] = not missing
        checks = [] if a.no_checks else [pid] + [c for c in a.also.split(",") if c]
        res["checks"] = {}
        for c in checks:
            rc, out = run(f"./check {c} --tier {a.tier} --no-evidence", env={"PYTHONPATH": wt}, cwd="/verif", timeout=3000)
            lines = [l for l in out.splitlines() if any(k in l for k in ("VIOLATION", "HELD", "INCONCLUSIVE", "violated clauses"))]
            res["checks"][c] = {"rc": rc, "tier": a.tier, "summary": lines[-3:]}
finally:
    subprocess.run(f"git -C /repo worktree remove --force {wt}", shell=True, capture_output=True)
old = {}
if os.path.exists(d + "/vet.json"):
    old = json.load(open(d + "/vet.json"))
    oc = old.get("checks", {}); oc.update(res.get("checks", {})); res["checks"] = oc
    for k in ("suite_ok", "suite_regressions"):
        if k in old and k not in res: res[k] = old[k]
json.dump(res, open(d + "/vet.json", "w"), indent=1)
print(sid, "applies", res.get("applies"), "demo_ok", res.get("demo_ok"), "suite_ok", res.get("suite_ok"),
      {c: v["rc"] for c, v in res.get("checks", {}).items()})
