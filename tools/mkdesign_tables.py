#!/usr/bin/env python3
"""Regenerate the tables of DESIGN.md sections 4.1 / 4.2 from tools/fixed_map.txt and known_findings.json."""
import json, re
p='/verif/DESIGN.md'; s=open(p).read()
rows=[]
for line in open('/verif/tools/fixed_map.txt'):
    line=line.strip()
    if not line: continue
    c,props,what=line.split(' ',2)
    rows.append(f"| `{c}` | {props.replace(',',', ')} | {what} |")
a=s.index('### 4.1 Repaired in `/repo`')
b=s.index('Reverting any of these commits')
s=s[:a]+f"### 4.1 Repaired in `/repo` ({len(rows)} `fix:` commits, oldest first)\n\n| commit | properties | what failed on the pinned tree |\n|---|---|---|\n"+"\n".join(rows)+"\n\n"+s[b:]
kf=json.load(open('/verif/known_findings.json'))
open_rows=[f"| `{o['id']}` | {o['property']} | {o['what']} | {o['classifier'][:400]}{'…' if len(o['classifier'])>400 else ''} |" for o in kf['open']]
a=s.index('| id | property | what fails | classifier (abridged) |')
b=s.index('Why not repaired:')
s=s[:a]+"| id | property | what fails | classifier (abridged) |\n|---|---|---|---|\n"+"\n".join(open_rows)+"\n\n"+s[b:]
open(p,'w').write(s)
print(len(rows), len(open_rows))
