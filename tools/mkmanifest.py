#!/usr/bin/env python3
"""Regenerate MANIFEST.json from the property modules present in vf/props (run with /venv/bin/python)."""
import importlib, json, sys, re
from pathlib import Path
ROOT = Path(__file__).resolve().parent.parent
sys.path.insert(0, str(ROOT))
props = [json.loads(l) for l in (ROOT / "properties.jsonl").read_text().splitlines() if l.strip()]
na_file = ROOT / "not_applicable.json"
na = json.loads(na_file.read_text()) if na_file.exists() else {}
checks, not_applicable = [], []
for p in props:
    pid = p["id"]
    f = ROOT / "vf" / "props" / (pid.lower() + ".py")
    if not f.exists() or pid in na:
        not_applicable.append({"property_id": pid, "reason": na.get(pid, "check not built yet in this round (planned, see DESIGN.md section 3)")})
        continue
    src = f.read_text()
    def grab(name, default):
        m = re.search(r'^%s\s*=\s*\(?\s*((?:"[^"\n]*"\s*)+)\)?' % name, src, re.M)
        if not m:
            return default
        return "".join(re.findall(r'"([^"\n]*)"', m.group(1)))
    checks.append({
        "property_id": pid,
        "quick_cmd": "./check %s --tier quick" % pid,
        "thorough_cmd": "./check %s --tier thorough" % pid,
        "evidence_file": "evidence/%s.json" % pid,
        "replay_cmd_template": "./check %s --replay {path}" % pid,
        "engine": "vf-runtime-monitors",
        "level_claimed": {
            "category": "exploration",
            "text": grab("LEVEL_TEXT", "Runtime monitoring: the real abTEM functions are run on generated and hostile inputs while oracles (independent float64 reference models / differential executions / hooked invariants) watch every execution; the verdict is 'held on the executions listed in the evidence', which is the strongest claim this family supports for an all-inputs property."),
            "design_ref": "DESIGN.md section 3, " + pid,
        },
        "level_note": grab("LEVEL_NOTE", "Trusts numpy/scipy/dask as reference implementations and the oracle written in vf/props/%s.py; covers CPU backend only; says nothing about inputs not generated." % pid.lower()),
        "technique": grab("TECHNIQUE", "runtime monitoring with reference-model oracle over generated workloads"),
    })
man = {
    "version": 1,
    "setup_cmd": "./setup.sh",
    "hooks": {
        "guard": "ABTEM_VERIF",
        "enable": "no source hooks are needed: monitors wrap module attributes of the working tree in /repo from the harness (the repository is installed in development mode, so checks always run the current sources); ./check exports ABTEM_VERIF=1 for forward compatibility",
        "baseline_off_cmd": "cd /repo && /venv/bin/python -m pytest -ra -q -p no:cacheprovider --timeout=900 --continue-on-collection-errors",
        "source_commits": [],
        "add_only": True,
    },
    "engines": [{"name": "vf-runtime-monitors", "path": "vf/harness.py",
                 "serves_properties": [c["property_id"] for c in checks],
                 "kind_free_text": "python harness: seeded workload generators, wrappers/contracts on the real functions, reference-model and differential oracles, history and schedule-stress monitors, evidence writer"}],
    "checks": checks,
    "notes": "See DESIGN.md. Exit codes: 0 held on what was explored, 1 VIOLATION, 2 INCONCLUSIVE (a deciding monitor was never reached).",
    "not_applicable": not_applicable,
}
(ROOT / "MANIFEST.json").write_text(json.dumps(man, indent=1) + "\n")
print("checks:", len(checks), "not_applicable:", len(not_applicable))
