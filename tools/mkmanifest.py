#!/usr/bin/env python3
"""Regenerate MANIFEST.json from the property modules present in vf/props (run with /venv/bin/python)."""
import importlib, json, sys, re
from pathlib import Path
ROOT = Path(__file__).resolve().parent.parent
sys.path.insert(0, str(ROOT))
props = [json.loads(l) for l in (ROOT / "properties.jsonl").read_text().splitlines() if l.strip()]
na_file = ROOT / "not_applicable.json"
na = json.loads(na_file.read_text()) if na_file.exists() else {}
checks, not_applicable = [], []
for p in props:
    pid = p["id"]
    f = ROOT / "vf" / "props" / (pid.lower() + ".py")
    if not f.exists() or pid in na:
        not_applicable.append({"property_id": pid, "reason": na.get(pid, "check not built yet in this round (planned, see DESIGN.md section 3)")})
        continue
    src = f.read_text()
    def grab(name, default):
        m = re.search(r'^%s\s*=\s*\(?\s*((?:"[^"\n]*"\s*)+)\)?' % name, src, re.M)
        if not m:
            return default
        return "".join(re.findall(r'"([^"\n]*)"', m.group(1)))
    import ast
    tree = ast.parse(src)
    doc = (ast.get_docstring(tree) or "").strip()
    first_par = " ".join(doc.split("\n\n")[0].split()) if doc else ""
    rest = " ".join(" ".join(doc.split("\n\n")[1:3]).split())[:700] if doc else ""
    assumptions = []
    for node in tree.body:
        if isinstance(node, ast.Assign) and getattr(node.targets[0], "id", "") == "ASSUMPTIONS":
            try:
                assumptions = [str(x) for x in ast.literal_eval(node.value)]
            except Exception:
                pass
    auto_text = ("Runtime monitoring at exploration level: the real abTEM code is executed on seeded generated and hostile inputs "
                 "while independent oracles observe every execution; verdict = held on the executions listed in the evidence. "
                 + rest)
    auto_note = ("Trusted base: numpy/scipy/dask as reference implementations and the oracle in vf/props/%s.py; CPU backend only; "
                 "inputs not generated are not covered. " % pid.lower()) + " ".join(assumptions)[:900]
    checks.append({
        "property_id": pid,
        "quick_cmd": "./check %s --tier quick" % pid,
        "thorough_cmd": "./check %s --tier thorough" % pid,
        "evidence_file": "evidence/%s.json" % pid,
        "replay_cmd_template": "./check %s --replay {path}" % pid,
        "engine": "vf-runtime-monitors",
        "level_claimed": {
            "category": "exploration",
            "text": grab("LEVEL_TEXT", auto_text),
            "design_ref": "DESIGN.md section 3, " + pid,
        },
        "level_note": grab("LEVEL_NOTE", auto_note),
        "technique": grab("TECHNIQUE", "runtime monitoring with reference-model oracle over generated workloads"),
    })
man = {
    "version": 1,
    "setup_cmd": "./setup.sh",
    "hooks": {
        "guard": "ABTEM_VERIF",
        "enable": "no source hooks are needed: monitors wrap module attributes of the working tree in /repo from the harness (the repository is installed in development mode, so checks always run the current sources); ./check exports ABTEM_VERIF=1 for forward compatibility",
        "baseline_off_cmd": "cd /repo && /venv/bin/python -m pytest -ra -q -p no:cacheprovider --timeout=900 --continue-on-collection-errors",
        "source_commits": [],
        "add_only": True,
    },
    "engines": [{"name": "vf-runtime-monitors", "path": "vf/harness.py",
                 "serves_properties": [c["property_id"] for c in checks],
                 "kind_free_text": "python harness: seeded workload generators, wrappers/contracts on the real functions, reference-model and differential oracles, history and schedule-stress monitors, evidence writer"}],
    "checks": checks,
    "notes": "See DESIGN.md. Exit codes: 0 held on what was explored, 1 VIOLATION, 2 INCONCLUSIVE (a deciding monitor was never reached).",
    "not_applicable": not_applicable,
}
(ROOT / "MANIFEST.json").write_text(json.dumps(man, indent=1) + "\n")
print("checks:", len(checks), "not_applicable:", len(not_applicable))
