#!/usr/bin/env python3
"""Validate MANIFEST.json and evidence files against the schemas (run with python3-vt)."""
import json, sys, glob
import jsonschema
R="/verif/"
jsonschema.validate(json.load(open(R+"MANIFEST.json")), json.load(open("/root/.vp/MANIFEST.schema.json")))
es=json.load(open("/root/.vp/EVIDENCE.schema.json"))
bad=0
for f in sorted(glob.glob(R+"evidence/*.json")):
    try:
        jsonschema.validate(json.load(open(f)), es)
    except Exception as e:
        bad+=1; print("INVALID", f, str(e)[:200])
print("manifest ok; evidence files:", len(glob.glob(R+"evidence/*.json")), "invalid:", bad)
sys.exit(1 if bad else 0)
