#!/usr/bin/env python3
"""Copy vetted blind changes from /tmp/breakers/out into /verif/seeded/<id>/ and write seeded/README.md."""
import json, os, re, shutil, glob
SRC = "/tmp/breakers/out"; DST = "/verif/seeded"
rows = []
for d in sorted(glob.glob(SRC + "/C*") + glob.glob(SRC + "2/C*")):
    sid = os.path.basename(d)
    vj = d + "/vet.json"
    if not os.path.exists(vj):
        continue
    v = json.load(open(vj))
    if not (v.get("applies") and v.get("demo_ok")):
        continue
    if v.get("suite_ok") is not True:
        continue
    out = DST + "/" + sid
    os.makedirs(out, exist_ok=True)
    for f in ("patch.diff", "demo.py", "notes.md"):
        shutil.copy(d + "/" + f, out + "/" + f)
    notes = open(d + "/notes.md").read()
    m = re.search(r"(?is)(needs?[^\n]*manifest[^\n]*\n?.*?)(\n\s*\n|\n\*\*|\n#)", notes)
    needs = " ".join(m.group(1).split())[:700] if m else ""
    caught = sorted(c for c, r in v.get("checks", {}).items() if r["rc"] == 1)
    missed = sorted(c for c, r in v.get("checks", {}).items() if r["rc"] == 0)
    meta = {
        "id": sid, "breaks_property": v["property"],
        "origin": "written by an independent sub-agent that was given only the property text and a scratch worktree of /repo (nothing from /verif)",
        "needs_to_manifest": needs,
        "checks": caught or [v["property"]],
        "verified": {
            "patch_applies_to_repo_head": True,
            "demo_exit_code_pristine": v["demo_pristine_rc"], "demo_exit_code_with_patch": v["demo_patched_rc"],
            "pinned_suite_with_patch": "all 509 BASELINE stable_pass tests pass (tools/vet_seeded.py --tests: pytest in a scratch worktree with the patch)",
            "check_results_with_patch": {c: {"exit": r["rc"], "tier": r["tier"], "summary": r["summary"]} for c, r in v.get("checks", {}).items()},
        },
        "caught_by": caught, "not_caught_by": missed,
        "how_to_rerun": "tools/seeded.sh %s   (applies the patch to /repo, runs the listed checks, restores /repo)" % sid,
    }
    json.dump(meta, open(out + "/meta.json", "w"), indent=1)
    rows.append((sid, v["property"], caught, missed, needs))
with open(DST + "/README.md", "w") as f:
    f.write("# Blind seeded changes\n\nEach directory holds a change to abTEM written by an independent agent from the property text alone "
            "(`patch.diff`), its demonstration (`demo.py`: exit 0 on the pristine tree, non-zero with the patch), the author's `notes.md` "
            "and `meta.json` (what it needs to manifest, what was run, which checks catch it). All of them leave the pinned 509-test "
            "baseline green. `tools/seeded.sh <id>` re-runs the listed checks against `/repo` with the patch applied and restores `/repo`.\n\n"
            "| id | property | caught by (quick tier) | not caught by | needs to manifest |\n|---|---|---|---|---|\n")
    for sid, pid, caught, missed, needs in rows:
        f.write(f"| {sid} | {pid} | {', '.join(caught) or '—'} | {', '.join(missed) or '—'} | {needs[:300]} |\n")
    n_c = sum(1 for r in rows if r[2])
    f.write(f"\n{len(rows)} changes kept; {n_c} caught by at least one check in the quick tier.\n")
print(len(rows), "imported;", sum(1 for r in rows if not r[2]), "not caught")
