#!/bin/bash
# tools/sweep.sh <tier> <seeds...> : run every registered check for each seed, print one line per run
cd "$(dirname "$0")/.."
tier=${1:-quick}; shift
seeds=${@:-0}
for p in $(jq -r '.checks[].property_id' MANIFEST.json); do
  for s in $seeds; do
    out=$(./check $p --tier $tier --seed $s --no-evidence 2>&1); rc=$?
    echo "$p seed=$s rc=$rc $(echo "$out" | grep -E '^C[0-9]+ tier' | sed 's/.*cases=/cases=/') $(echo "$out" | grep -E 'VIOLATION|INCONCLUSIVE|KNOWN-FINDING' | tr '\n' ' ' | cut -c1-200)"
  done
done
