#!/usr/bin/env python3
"""Run the repository's pinned test command (guard off) and compare with BASELINE.json stable_pass."""
import json, subprocess, sys, os, tempfile, xml.etree.ElementTree as ET
base = json.load(open("/root/.vp/BASELINE.json"))
out = tempfile.mktemp(suffix=".xml", dir="/tmp")
env = dict(os.environ); env.pop("ABTEM_VERIF", None)
cmd = ["/venv/bin/python", "-m", "pytest", "-q", "-p", "no:cacheprovider", "--timeout=900",
       "--continue-on-collection-errors", "--junitxml=" + out] + sys.argv[1:]
subprocess.run(cmd, cwd="/repo", env=env, stdout=subprocess.DEVNULL, stderr=subprocess.DEVNULL)
passed = set()
for tc in ET.parse(out).getroot().iter("testcase"):
    if not any(ch.tag in ("failure", "error", "skipped") for ch in tc):
        passed.add(tc.get("classname") + "::" + tc.get("name"))
os.remove(out)
stable = set(base["stable_pass"])
missing = sorted(stable - passed)
print("stable_pass:", len(stable), "passed now:", len(passed & stable), "newly passing:", len(passed - stable))
for m in missing:
    print("REGRESSION", m)
sys.exit(1 if missing else 0)
