#!/bin/bash
# tools/seeded.sh <seeded-id> [tier] : apply seeded/<id>/patch.diff to /repo, run the checks named in meta.json, undo.
cd "$(dirname "$0")/.."
id=$1; tier=${2:-quick}
d=seeded/$id
[ -f $d/patch.diff ] || { echo "no $d/patch.diff"; exit 2; }
if ! git -C /repo diff --quiet; then echo "/repo has uncommitted changes"; exit 2; fi
git -C /repo apply $PWD/$d/patch.diff || { echo "patch does not apply"; exit 2; }
trap 'git -C /repo checkout -- . ' EXIT
for p in $(jq -r '.checks[]' $d/meta.json); do
  out=$(./check $p --tier $tier --no-evidence 2>&1); rc=$?
  echo "$id $p rc=$rc $(echo "$out" | grep -E 'VIOLATION|INCONCLUSIVE|HELD' | head -2 | tr '\n' ' ')"
done
