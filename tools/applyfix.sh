#!/bin/bash
# tools/applyfix.sh <proposed_fixes/file.diff> : apply to /repo and commit with the subject/body from the diff's comment header
f=$(readlink -f "$1")
subj=$(grep -m1 '^# fix:' "$f" | sed 's/^# //')
body=$(sed -n '2,/^\(diff --git\|--- a\)/p' "$f" | grep '^#' | sed 's/^# \?//')
cd /repo || exit 2
git apply --3way "$f" || git apply "$f" || { echo "APPLY FAILED $f"; exit 1; }
git add -A abtem
git commit -q -m "$subj" -m "$body" && git log --oneline | head -1
